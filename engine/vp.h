// Harness API. Symbolic inside vpsx; file-driven in the native replay build (vp_native.cpp).
#pragma once
#include <stdint.h>
extern "C" {
int vp_int(const char* name, int lo, int hi);           // symbolic int in [lo,hi]
unsigned vp_u32(const char* name);                       // any 32-bit value
uint64_t vp_u64(const char* name);                       // any 64-bit value
double vp_double(const char* name);                      // any 64-bit pattern reinterpreted as double (harness assumes non-NaN where needed)
float vp_float(const char* name);
double vp_double_grid(const char* name, double lo, double step, int count);  // lo + i*step, i symbolic in [0,count)
void vp_assume(bool c);
void vp_assert(bool c, const char* label);
void vp_reach(const char* tag);
void vp_observe(uint64_t v);                             // folded into the differential digest (concrete mode only)
int vp_is_symbolic(void);
int vp_fork_int(int v);                                   // engine: fork on every feasible value and continue with it concrete; native: identity
}
// grid double whose index is forked to a concrete value by the solver (every grid point is covered by its own path; no guarded-set arithmetic)
static inline double vp_double_grid_forked(const char* name, double lo, double step, int count) { return lo + (double)vp_fork_int(vp_int(name, 0, count - 1)) * step; }
static inline bool vp_bool(const char* name) { return vp_int(name, 0, 1) != 0; }
