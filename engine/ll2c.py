#!/usr/bin/env python3
"""ll2c: translate LLVM-14 textual IR (typed pointers) into C for CBMC / gcc.
Prototype for feasibility probing."""
import re, sys, struct

# ----------------------------------------------------------------- tokenizer
TOK = re.compile(r'''
   (?P<ws>\s+)
 | (?P<comment>;[^\n]*)
 | (?P<cstr>c"(?:[^"\\]|\\[0-9A-Fa-f]{2}|\\\\)*")
 | (?P<lid>%(?:"(?:[^"\\]|\\.)*"|[-a-zA-Z$._0-9]+))
 | (?P<gid>@(?:"(?:[^"\\]|\\.)*"|[-a-zA-Z$._0-9]+))
 | (?P<md>![-a-zA-Z$._0-9]*|!\{[^}]*\})
 | (?P<attr>\#[0-9]+)
 | (?P<comdat>\$(?:"(?:[^"\\]|\\.)*"|[-a-zA-Z$._0-9]+))
 | (?P<hex>0x[KLMHR]?[0-9A-Fa-f]+)
 | (?P<num>-?[0-9]+\.[0-9]*(?:[eE][-+]?[0-9]+)?|-?[0-9]+)
 | (?P<str>"(?:[^"\\]|\\.)*")
 | (?P<dots>\.\.\.)
 | (?P<word>[a-zA-Z_][a-zA-Z_0-9.]*)
 | (?P<punct><\{|\}>|[\[\]{}()<>,=*:|])
''', re.X)

def tokenize(s):
    out = []; pos = 0
    while pos < len(s):
        m = TOK.match(s, pos)
        if not m: raise SyntaxError('tokenize: %r' % s[pos:pos+40])
        pos = m.end(); k = m.lastgroup
        if k in ('ws', 'comment'): continue
        out.append((k, m.group()))
    return out

class TS:
    def __init__(self, toks): self.t = toks; self.i = 0
    def peek(self, o=0): return self.t[self.i+o] if self.i+o < len(self.t) else ('eof', '')
    def next(self): x = self.peek(); self.i += 1; return x
    def accept(self, v):
        if self.peek()[1] == v: self.i += 1; return True
        return False
    def expect(self, v):
        x = self.next()
        if x[1] != v: raise SyntaxError('expected %r got %r at %d in %s' % (v, x, self.i, ' '.join(t[1] for t in self.t[max(0,self.i-8):self.i+8])))
    def eof(self): return self.i >= len(self.t)

# ----------------------------------------------------------------- types
class Ty:
    pass
class IntTy(Ty):
    def __init__(s, w): s.w = w
    def __repr__(s): return 'i%d' % s.w
    def key(s): return ('i', s.w)
class FpTy(Ty):
    def __init__(s, k): s.k = k
    def key(s): return ('f', s.k)
class VoidTy(Ty):
    def key(s): return ('v',)
class PtrTy(Ty):
    def __init__(s, to): s.to = to
    def key(s): return ('p', s.to.key())
class NamedTy(Ty):
    def __init__(s, n): s.n = n
    def key(s): return ('n', s.n)
class StructTy(Ty):
    def __init__(s, el, packed): s.el = el; s.packed = packed
    def key(s): return ('s', s.packed, tuple(e.key() for e in s.el))
class ArrTy(Ty):
    def __init__(s, n, el): s.n = n; s.el = el
    def key(s): return ('a', s.n, s.el.key())
class VecTy(Ty):
    def __init__(s, n, el): s.n = n; s.el = el
    def key(s): return ('x', s.n, s.el.key())
class FnTy(Ty):
    def __init__(s, ret, params, va): s.ret = ret; s.params = params; s.va = va
    def key(s): return ('fn', s.ret.key(), tuple(p.key() for p in s.params), s.va)
class OpaqueTy(Ty):
    def key(s): return ('o',)
class LabelTy(Ty):
    def key(s): return ('l',)
class MetaTy(Ty):
    def key(s): return ('m',)

def parse_type(ts):
    k, v = ts.next()
    if k == 'word':
        if re.fullmatch(r'i[0-9]+', v): t = IntTy(int(v[1:]))
        elif v in ('float', 'double', 'half', 'x86_fp80', 'fp128'): t = FpTy(v)
        elif v == 'void': t = VoidTy()
        elif v == 'opaque': t = OpaqueTy()
        elif v == 'label': t = LabelTy()
        elif v == 'metadata': t = MetaTy()
        elif v == 'token': t = MetaTy()
        else: raise SyntaxError('type word %r' % v)
    elif k == 'lid': t = NamedTy(unq(v[1:]))
    elif v == '{' or v == '<{':
        packed = v == '<{'; el = []
        close = '}>' if packed else '}'
        if not ts.accept(close):
            while True:
                el.append(parse_type(ts))
                if ts.accept(close): break
                ts.expect(',')
        t = StructTy(el, packed)
    elif v == '[':
        n = int(ts.next()[1]); ts.expect('x'); el = parse_type(ts); ts.expect(']')
        t = ArrTy(n, el)
    elif v == '<':
        n = int(ts.next()[1]); ts.expect('x'); el = parse_type(ts); ts.expect('>')
        t = VecTy(n, el)
    else: raise SyntaxError('type tok %r' % v)
    while True:
        if ts.accept('*'): t = PtrTy(t)
        elif ts.peek()[1] == '(' :
            # function type
            ts.next(); ps = []; va = False
            if not ts.accept(')'):
                while True:
                    if ts.peek()[0] == 'dots': ts.next(); va = True
                    else: ps.append(parse_type(ts))
                    if ts.accept(')'): break
                    ts.expect(',')
            t = FnTy(t, ps, va)
        else: break
    return t

# ----------------------------------------------------------------- values
class Val:
    pass
class Local(Val):
    def __init__(s, n): s.n = n
class Global(Val):
    def __init__(s, n): s.n = n
class ConstInt(Val):
    def __init__(s, v): s.v = v
class ConstFp(Val):
    def __init__(s, text): s.text = text
class ConstNull(Val): pass
class ConstUndef(Val): pass
class ConstZero(Val): pass
class ConstAgg(Val):
    def __init__(s, kind, items): s.kind = kind; s.items = items   # items: list of (ty,val)
class ConstStr(Val):
    def __init__(s, b): s.b = b
class ConstExpr(Val):
    def __init__(s, op, **kw): s.op = op; s.__dict__.update(kw)

CASTS = ('bitcast', 'inttoptr', 'ptrtoint', 'trunc', 'zext', 'sext', 'addrspacecast', 'fptosi', 'fptoui', 'sitofp', 'uitofp', 'fpext', 'fptrunc')
BINOPS = ('add', 'sub', 'mul', 'udiv', 'sdiv', 'urem', 'srem', 'and', 'or', 'xor', 'shl', 'lshr', 'ashr', 'fadd', 'fsub', 'fmul', 'fdiv', 'frem')

def unq(name):
    if name.startswith('"'): return name[1:-1]
    return name

def parse_cstr(s):
    s = s[2:-1]; out = bytearray(); i = 0
    while i < len(s):
        if s[i] == '\\':
            if s[i+1] == '\\': out.append(92); i += 2
            else: out.append(int(s[i+1:i+3], 16)); i += 3
        else: out.append(ord(s[i])); i += 1
    return bytes(out)

def parse_value(ts, ty=None):
    k, v = ts.next()
    if k == 'lid': return Local(unq(v[1:]))
    if k == 'gid': return Global(unq(v[1:]))
    if k == 'num':
        if '.' in v or 'e' in v or 'E' in v: return ConstFp(v)
        return ConstInt(int(v))
    if k == 'hex': return ConstFp(v)
    if k == 'cstr': return ConstStr(parse_cstr(v))
    if k == 'word':
        if v == 'true': return ConstInt(1)
        if v == 'false': return ConstInt(0)
        if v == 'null': return ConstNull()
        if v in ('undef', 'poison'): return ConstUndef()
        if v == 'zeroinitializer': return ConstZero()
        if v == 'getelementptr':
            ts.accept('inbounds'); ts.expect('(')
            bt = parse_type(ts); ts.expect(',')
            pt = parse_type(ts); p = parse_value(ts, pt); idx = []
            while ts.accept(','):
                ts.accept('inrange')
                it = parse_type(ts); iv = parse_value(ts, it); idx.append((it, iv))
            ts.expect(')')
            return ConstExpr('gep', bt=bt, pt=pt, p=p, idx=idx)
        if v in CASTS:
            ts.expect('('); ft = parse_type(ts); fv = parse_value(ts, ft); ts.expect('to'); tt = parse_type(ts); ts.expect(')')
            return ConstExpr('cast', cop=v, ft=ft, v=fv, tt=tt)
        if v in BINOPS:
            while ts.peek()[1] in ('nuw', 'nsw', 'exact'): ts.next()
            ts.expect('('); t1 = parse_type(ts); a = parse_value(ts, t1); ts.expect(','); t2 = parse_type(ts); b = parse_value(ts, t2); ts.expect(')')
            return ConstExpr('bin', bop=v, ty=t1, a=a, b=b)
        if v == 'icmp':
            pred = ts.next()[1]
            ts.expect('('); t1 = parse_type(ts); a = parse_value(ts, t1); ts.expect(','); t2 = parse_type(ts); b = parse_value(ts, t2); ts.expect(')')
            return ConstExpr('icmp', pred=pred, ty=t1, a=a, b=b)
        if v == 'select':
            ts.expect('('); t0 = parse_type(ts); c = parse_value(ts); ts.expect(','); t1 = parse_type(ts); a = parse_value(ts); ts.expect(','); t2 = parse_type(ts); b = parse_value(ts); ts.expect(')')
            return ConstExpr('select', c=c, ty=t1, a=a, b=b)
        raise SyntaxError('value word %r' % v)
    if v in ('{', '<{', '[', '<'):
        close = {'{': '}', '<{': '}>', '[': ']', '<': '>'}[v]; items = []
        if v == '<' and ts.peek()[1] == '{':   # packed struct literal '<{' tokenised as '<{' normally
            pass
        if not ts.accept(close):
            while True:
                it = parse_type(ts); iv = parse_value(ts, it); items.append((it, iv))
                if ts.accept(close): break
                ts.expect(',')
        return ConstAgg(v, items)
    raise SyntaxError('value tok %r %r' % (k, v))

PARAM_ATTRS = {'noundef', 'nonnull', 'nocapture', 'readonly', 'writeonly', 'readnone', 'zeroext', 'signext', 'noalias', 'immarg',
               'returned', 'inreg', 'nest', 'nofree', 'swiftself', 'swifterror', 'noreturn_', 'inalloca', 'allocalign', 'allocptr'}
PARAM_ATTRS_ARG = {'align', 'dereferenceable', 'dereferenceable_or_null', 'byval', 'sret', 'byref', 'preallocated', 'elementtype'}

def skip_param_attrs(ts):
    info = {}
    while True:
        k, v = ts.peek()
        if k == 'word' and v in PARAM_ATTRS: ts.next(); info[v] = True
        elif k == 'word' and v in PARAM_ATTRS_ARG:
            ts.next()
            if ts.accept('('):
                depth = 1; inner = []
                while depth:
                    t = ts.next()
                    if t[1] == '(': depth += 1
                    elif t[1] == ')': depth -= 1
                    if depth: inner.append(t)
                info[v] = inner
            else:
                info[v] = ts.next()[1]   # align N
        else: break
    return info

# ----------------------------------------------------------------- module parse
class Func:
    def __init__(s): s.blocks = []; s.params = []; s.name = None; s.ret = None; s.va = False; s.attrs = set(); s.defined = False
class Block:
    def __init__(s, name): s.name = name; s.ins = []
class Ins:
    def __init__(s, op, res=None, **kw): s.op = op; s.res = res; s.__dict__.update(kw)

FN_PREFIX_WORDS = {'dso_local', 'dso_preemptable', 'internal', 'private', 'linkonce_odr', 'linkonce', 'weak', 'weak_odr', 'external', 'available_externally',
                   'hidden', 'protected', 'default', 'fastcc', 'ccc', 'coldcc', 'unnamed_addr', 'local_unnamed_addr', 'common', 'appending', 'extern_weak',
                   'thread_local', 'externally_initialized'}

class Module:
    def __init__(s):
        s.types = {}; s.type_order = []; s.globals = {}; s.funcs = {}; s.attrgroups = {}

def parse_module(text):
    m = Module()
    lines = text.split('\n'); i = 0
    while i < len(lines):
        ln = lines[i]
        if not ln.strip() or ln.startswith(';') or ln.startswith('source_filename') or ln.startswith('target ') or ln.startswith('$') or ln.startswith('!'):
            i += 1; continue
        if ln.startswith('attributes #'):
            mm = re.match(r'attributes (#\d+) = \{(.*)\}', ln)
            m.attrgroups[mm.group(1)] = set(re.findall(r'[a-z_]+', re.sub(r'"[^"]*"(="[^"]*")?', '', mm.group(2))))
            i += 1; continue
        if ln.startswith('%') and ' = type ' in ln:
            ts = TS(tokenize(ln)); name = unq(ts.next()[1][1:]); ts.expect('='); ts.expect('type')
            m.types[name] = parse_type(ts); m.type_order.append(name); i += 1; continue
        if ln.startswith('@'):
            parse_global(m, ln); i += 1; continue
        if ln.startswith('declare '):
            parse_fn_header(m, ln, False); i += 1; continue
        if ln.startswith('define '):
            f = parse_fn_header(m, ln, True); i += 1
            cur = Block(str(sum(1 for pt, pn, pa in f.params if pn is None or pn.isdigit()))); f.blocks.append(cur)
            while lines[i] != '}':
                l = lines[i]; i += 1
                if not l.strip(): continue
                mm = re.match(r'^([-a-zA-Z$._0-9]+|"[^"]*"):', l)
                if mm:
                    cur = Block(unq(mm.group(1))); f.blocks.append(cur); continue
                # join continuation lines (invoke 'to label', landingpad clauses, switch cases)
                s = l
                while i < len(lines) and lines[i] != '}' and ((lines[i].startswith('    ') and not re.match(r'^  [%a-z]', lines[i])) or lines[i].strip() == ']'):
                    s += ' ' + lines[i].strip(); i += 1
                cur.ins.append(parse_ins(s))
            i += 1; continue
        raise SyntaxError('toplevel: ' + ln[:100])
    return m

def parse_global(m, ln):
    ts = TS(tokenize(ln)); name = unq(ts.next()[1][1:]); ts.expect('=')
    external = False
    while ts.peek()[0] == 'word' and (ts.peek()[1] in FN_PREFIX_WORDS):
        if ts.peek()[1] in ('external', 'extern_weak'): external = True
        w = ts.next()[1]
        if w == 'thread_local' and ts.accept('('):
            while ts.next()[1] != ')': pass
    const = ts.next()[1]   # global | constant
    assert const in ('global', 'constant'), ln[:80]
    ty = parse_type(ts); init = None
    if not external and not ts.eof() and ts.peek()[1] != ',':
        init = parse_value(ts, ty)
    m.globals[name] = (ty, init, const == 'constant')

def parse_fn_header(m, ln, defined):
    ts = TS(tokenize(ln)); ts.next()
    f = Func(); f.defined = defined
    while ts.peek()[0] == 'word' and ts.peek()[1] in FN_PREFIX_WORDS: ts.next()
    ra = skip_param_attrs(ts)
    f.ret = parse_type_nofn(ts)
    f.name = unq(ts.next()[1][1:]); ts.expect('(')
    if not ts.accept(')'):
        while True:
            if ts.peek()[0] == 'dots': ts.next(); f.va = True
            else:
                pt = parse_type(ts); pa = skip_param_attrs(ts); pn = None
                if ts.peek()[0] == 'lid': pn = unq(ts.next()[1][1:])
                f.params.append((pt, pn, pa))
            if ts.accept(')'): break
            ts.expect(',')
    while not ts.eof():
        k, v = ts.next()
        if k == 'attr': f.attrs |= m.attrgroups.get(v, set()); f.attrrefs = getattr(f, 'attrrefs', []) + [v]
        elif v == 'nounwind': f.attrs.add('nounwind')
    m.funcs[f.name] = f
    return f

def parse_type_nofn(ts):
    """parse a type but do not treat a following '(' as function type (for define/declare return types)"""
    # return types in headers are never function types; but pointer-to-function return is 'T (args)*' -- rare; handle simple
    save = ts.i
    k, v = ts.peek()
    # temporarily parse base and only '*' postfix
    t = parse_type_base(ts)
    while ts.accept('*'): t = PtrTy(t)
    return t

def parse_type_base(ts):
    # parse a type without postfix function-type handling
    k, v = ts.peek()
    if k == 'word' or k == 'lid':
        ts.next()
        if k == 'lid': return NamedTy(unq(v[1:]))
        if re.fullmatch(r'i[0-9]+', v): return IntTy(int(v[1:]))
        if v in ('float', 'double', 'half', 'x86_fp80', 'fp128'): return FpTy(v)
        if v == 'void': return VoidTy()
        raise SyntaxError('type base %r' % v)
    # aggregate: delegate to parse_type but it may swallow '(' -- aggregates followed by '(' do not occur in headers
    return parse_type(ts)

def fix_named(t):
    return t

def parse_call_tail(ts, res, op):
    # after 'call'/'invoke' keyword
    while ts.peek()[0] == 'word' and ts.peek()[1] in ('fastcc', 'ccc', 'coldcc', 'tail', 'fast', 'nnan', 'ninf', 'nsz', 'arcp', 'contract', 'afn', 'reassoc'): ts.next()
    skip_param_attrs(ts)
    # return type, maybe full function type
    rt = parse_type_base(ts)
    while ts.accept('*'): rt = PtrTy(rt)
    fnty = None
    if ts.peek()[1] == '(':
        # function type spelled out: (params)[*]
        save = ts.i
        ts.next(); ps = []; va = False
        ok = True
        try:
            if not ts.accept(')'):
                while True:
                    if ts.peek()[0] == 'dots': ts.next(); va = True
                    else: ps.append(parse_type(ts))
                    if ts.accept(')'): break
                    ts.expect(',')
            fnty = FnTy(rt, ps, va)
            while ts.accept('*'): pass
        except SyntaxError:
            ok = False
        if not ok or ts.peek()[0] not in ('gid', 'lid'):
            ts.i = save; fnty = None
    callee = parse_value(ts)
    ts.expect('('); args = []
    if not ts.accept(')'):
        while True:
            at = parse_type(ts); aa = skip_param_attrs(ts); av = parse_value(ts, at); args.append((at, av, aa))
            if ts.accept(')'): break
            ts.expect(',')
    attrs = []
    while not ts.eof() and ts.peek()[1] not in ('to',):
        k, v = ts.next()
        if k == 'attr': attrs.append(v)
        if v == 'nounwind': attrs.append('nounwind')
    ins = Ins(op, res, rt=rt, fnty=fnty, callee=callee, args=args, attrs=attrs)
    if op == 'invoke':
        ts.expect('to'); ts.expect('label'); ins.normal = unq(ts.next()[1][1:]); ts.expect('unwind'); ts.expect('label'); ins.unwind = unq(ts.next()[1][1:])
    return ins

def parse_ins(s):
    ts = TS(tokenize(s)); res = None
    if ts.peek()[0] == 'lid' and ts.peek(1)[1] == '=':
        res = unq(ts.next()[1][1:]); ts.next()
    k, op = ts.next()
    if op in ('tail', 'musttail', 'notail'): k, op = ts.next()
    if op == 'ret':
        t = parse_type(ts)
        if isinstance(t, VoidTy): return Ins('ret', ty=t, v=None)
        return Ins('ret', ty=t, v=parse_value(ts, t))
    if op == 'br':
        if ts.accept('label'): return Ins('br', dest=unq(ts.next()[1][1:]))
        t = parse_type(ts); c = parse_value(ts); ts.expect(','); ts.expect('label'); a = unq(ts.next()[1][1:]); ts.expect(','); ts.expect('label'); b = unq(ts.next()[1][1:])
        return Ins('condbr', c=c, a=a, b=b)
    if op == 'switch':
        t = parse_type(ts); v = parse_value(ts); ts.expect(','); ts.expect('label'); d = unq(ts.next()[1][1:]); ts.expect('['); cases = []
        while not ts.accept(']'):
            ct = parse_type(ts); cv = parse_value(ts); ts.expect(','); ts.expect('label'); cases.append((cv, unq(ts.next()[1][1:])))
        return Ins('switch', ty=t, v=v, default=d, cases=cases)
    if op == 'unreachable': return Ins('unreachable')
    if op == 'resume':
        t = parse_type(ts); return Ins('resume', ty=t, v=parse_value(ts))
    if op in ('call', 'invoke'): return parse_call_tail(ts, res, op)
    if op == 'landingpad':
        t = parse_type(ts); clauses = []
        while not ts.eof():
            w = ts.next()[1]
            if w == 'cleanup': clauses.append(('cleanup', None))
            elif w in ('catch', 'filter'):
                ct = parse_type(ts); cv = parse_value(ts); clauses.append((w, cv))
        return Ins('landingpad', res, ty=t, clauses=clauses)
    if op in BINOPS:
        flags = set()
        while ts.peek()[1] in ('nuw', 'nsw', 'exact', 'fast', 'nnan', 'ninf', 'nsz', 'arcp', 'contract', 'afn', 'reassoc'): flags.add(ts.next()[1])
        t = parse_type(ts); a = parse_value(ts); ts.expect(','); b = parse_value(ts)
        return Ins('bin', res, bop=op, ty=t, a=a, b=b, flags=flags)
    if op == 'fneg':
        while ts.peek()[1] in ('fast', 'nnan', 'ninf', 'nsz', 'arcp', 'contract', 'afn', 'reassoc'): ts.next()
        t = parse_type(ts); return Ins('fneg', res, ty=t, a=parse_value(ts))
    if op in ('icmp', 'fcmp'):
        while ts.peek()[1] in ('fast', 'nnan', 'ninf', 'nsz', 'arcp', 'contract', 'afn', 'reassoc'): ts.next()
        pred = ts.next()[1]; t = parse_type(ts); a = parse_value(ts); ts.expect(','); b = parse_value(ts)
        return Ins(op, res, pred=pred, ty=t, a=a, b=b)
    if op in CASTS:
        ft = parse_type(ts); v = parse_value(ts); ts.expect('to'); tt = parse_type(ts)
        return Ins('cast', res, cop=op, ft=ft, v=v, tt=tt)
    if op == 'select':
        while ts.peek()[1] in ('fast', 'nnan', 'ninf', 'nsz', 'arcp', 'contract', 'afn', 'reassoc'): ts.next()
        ct = parse_type(ts); c = parse_value(ts); ts.expect(','); t = parse_type(ts); a = parse_value(ts); ts.expect(','); t2 = parse_type(ts); b = parse_value(ts)
        return Ins('select', res, c=c, ty=t, a=a, b=b, ct=ct)
    if op == 'phi':
        while ts.peek()[1] in ('fast', 'nnan', 'ninf', 'nsz', 'arcp', 'contract', 'afn', 'reassoc'): ts.next()
        t = parse_type(ts); inc = []
        while True:
            ts.expect('['); v = parse_value(ts); ts.expect(','); b = unq(ts.next()[1][1:]); ts.expect(']'); inc.append((v, b))
            if not ts.accept(','): break
        return Ins('phi', res, ty=t, inc=inc)
    if op == 'alloca':
        ts.accept('inalloca'); t = parse_type(ts); n = None
        while ts.accept(','):
            if ts.accept('align'): ts.next()
            elif ts.accept('addrspace'): ts.next(); ts.next(); ts.next()
            else: nt = parse_type(ts); n = (nt, parse_value(ts))
        return Ins('alloca', res, ty=t, n=n)
    if op == 'load':
        ts.accept('atomic'); ts.accept('volatile'); t = parse_type(ts); ts.expect(','); pt = parse_type(ts); p = parse_value(ts)
        return Ins('load', res, ty=t, p=p, pt=pt)
    if op == 'store':
        ts.accept('atomic'); ts.accept('volatile'); t = parse_type(ts); v = parse_value(ts); ts.expect(','); pt = parse_type(ts); p = parse_value(ts)
        return Ins('store', ty=t, v=v, p=p, pt=pt)
    if op == 'getelementptr':
        ts.accept('inbounds'); bt = parse_type(ts); ts.expect(','); pt = parse_type(ts); p = parse_value(ts); idx = []
        while ts.accept(','):
            if ts.peek()[0] == 'md': break
            it = parse_type(ts); idx.append((it, parse_value(ts)))
        return Ins('gep', res, bt=bt, pt=pt, p=p, idx=idx)
    if op == 'extractvalue':
        t = parse_type(ts); v = parse_value(ts); idx = []
        while ts.accept(','):
            if ts.peek()[0] == 'md': break
            idx.append(int(ts.next()[1]))
        return Ins('extractvalue', res, ty=t, v=v, idx=idx)
    if op == 'insertvalue':
        t = parse_type(ts); v = parse_value(ts); ts.expect(','); et = parse_type(ts); e = parse_value(ts); idx = []
        while ts.accept(','):
            if ts.peek()[0] == 'md': break
            idx.append(int(ts.next()[1]))
        return Ins('insertvalue', res, ty=t, v=v, et=et, e=e, idx=idx)
    if op == 'freeze':
        t = parse_type(ts); return Ins('freeze', res, ty=t, v=parse_value(ts))
    if op == 'atomicrmw':
        ts.accept('volatile'); rop = ts.next()[1]; pt = parse_type(ts); p = parse_value(ts); ts.expect(','); t = parse_type(ts); v = parse_value(ts)
        return Ins('atomicrmw', res, rop=rop, pt=pt, p=p, ty=t, v=v)
    if op == 'cmpxchg':
        ts.accept('weak'); ts.accept('volatile'); pt = parse_type(ts); p = parse_value(ts); ts.expect(','); t = parse_type(ts); c = parse_value(ts); ts.expect(','); t2 = parse_type(ts); n = parse_value(ts)
        return Ins('cmpxchg', res, pt=pt, p=p, ty=t, c=c, n=n)
    if op == 'fence': return Ins('fence')
    if op in ('extractelement', 'insertelement', 'shufflevector'):
        raise NotImplementedError('vector op ' + op)
    raise SyntaxError('instruction %r in %s' % (op, s[:120]))

# ----------------------------------------------------------------- C emission
def cid(name):
    return re.sub(r'[^A-Za-z0-9_]', lambda m: '_%02x' % ord(m.group()), name)

class Emitter:
    def __init__(s, m):
        s.m = m; s.anon = {}; s.anon_defs = []; s.out = []; s.fnptr_typedefs = {}; s.struct_names = {}
        for n in m.types: s.struct_names[n] = 'S_' + cid(n)

    # -------- type layout (LLVM datalayout x86-64)
    def resolve(s, t):
        while isinstance(t, NamedTy): t = s.m.types[t.n]
        return t
    def size_align(s, t):
        t0 = t; t = s.resolve(t)
        if isinstance(t, IntTy):
            w = t.w
            if w <= 8: return 1, 1
            if w <= 16: return 2, 2
            if w <= 32: return 4, 4
            if w <= 64: return 8, 8
            return 16, 16   # clang __int128 abi; LLVM14 datalayout says i128 align 8 but clang pads explicitly
        if isinstance(t, FpTy): return {'float': (4, 4), 'double': (8, 8), 'half': (2, 2), 'x86_fp80': (16, 16), 'fp128': (16, 16)}[t.k]
        if isinstance(t, PtrTy): return 8, 8
        if isinstance(t, ArrTy):
            sz, al = s.size_align(t.el); return sz * t.n, al
        if isinstance(t, VecTy):
            sz, al = s.size_align(t.el); return sz * t.n, sz * t.n
        if isinstance(t, StructTy):
            off = 0; mal = 1
            for e in t.el:
                sz, al = s.size_align(e)
                if t.packed: al = 1
                off = (off + al - 1) // al * al; off += sz; mal = max(mal, al)
            off = (off + mal - 1) // mal * mal
            return off, mal
        if isinstance(t, OpaqueTy): return 1, 1
        raise ValueError('size of %r' % t)

    def carrier(s, w):
        if w == 1: return '_Bool'
        if w <= 8: return 'uint8_t'
        if w <= 16: return 'uint16_t'
        if w <= 32: return 'uint32_t'
        if w <= 64: return 'uint64_t'
        if w <= 128: return 'vp_u128'
        raise ValueError('int width %d' % w)
    def scarrier(s, w):
        if w <= 8: return 'int8_t'
        if w <= 16: return 'int16_t'
        if w <= 32: return 'int32_t'
        if w <= 64: return 'int64_t'
        return 'vp_i128'

    def ctype(s, t, decl=''):
        """return C declaration of 'decl' with type t"""
        if isinstance(t, IntTy): return (s.carrier(t.w) + ' ' + decl).strip()
        if isinstance(t, FpTy): return ({'float': 'float', 'double': 'double', 'x86_fp80': 'long double', 'half': '_Float16', 'fp128': '__float128'}[t.k] + ' ' + decl).strip()
        if isinstance(t, VoidTy): return ('void ' + decl).strip()
        if isinstance(t, NamedTy):
            if isinstance(s.m.types[t.n], OpaqueTy): return ('struct %s %s' % (s.struct_names[t.n], decl)).strip()
            return ('struct %s %s' % (s.struct_names[t.n], decl)).strip()
        if isinstance(t, PtrTy):
            if isinstance(t.to, FnTy): return s.ctype(t.to, '(*%s)' % decl)
            if isinstance(t.to, ArrTy): return s.ctype(t.to, '(*%s)' % decl)
            return s.ctype(t.to, '*' + decl)
        if isinstance(t, ArrTy): return s.ctype(t.el, '%s[%d]' % (decl, max(t.n, 0)) if t.n > 0 else '%s[1]' % decl)
        if isinstance(t, StructTy): return ('struct %s %s' % (s.anon_struct(t), decl)).strip()
        if isinstance(t, FnTy):
            ps = ', '.join(s.ctype(p) for p in t.params)
            if t.va: ps = (ps + ', ...') if ps else ''
            elif not ps: ps = 'void'
            return s.ctype(t.ret, '%s(%s)' % (decl, ps))
        if isinstance(t, VecTy): return s.ctype(ArrTy(t.n, t.el), decl)   # vectors as struct-wrapped arrays not supported as values
        if isinstance(t, OpaqueTy): return ('void ' + decl).strip()
        if isinstance(t, (MetaTy, LabelTy)): return ('int ' + decl).strip()
        raise ValueError('ctype %r' % t)

    def anon_struct(s, t):
        k = t.key()
        if k not in s.anon:
            s.anon[k] = 'A_%d' % len(s.anon); s.anon_defs.append((s.anon[k], t))
        return s.anon[k]

    def emit_struct_def(s, name, t, lines):
        lines.append('struct %s {' % name)
        if not t.el: lines.append('  char vp_empty;')
        for i, e in enumerate(t.el): lines.append('  %s;' % s.ctype(e, 'f%d' % i))
        lines.append('}%s;' % (' __attribute__((packed))' if t.packed else ''))
        sz, al = s.size_align(t)
        if t.el: lines.append('_Static_assert(sizeof(struct %s) == %d, "layout %s");' % (name, sz, name))

    def struct_deps(s, t, acc):
        # by-value dependencies
        if isinstance(t, NamedTy): acc.append(('n', t.n))
        elif isinstance(t, StructTy):
            acc.append(('a', t.key()))
        elif isinstance(t, (ArrTy, VecTy)): s.struct_deps(t.el, acc)
        elif isinstance(t, PtrTy):
            # pointer to anonymous struct still needs the anon struct registered (but not complete)
            s.touch(t.to)
    def touch(s, t):
        if isinstance(t, StructTy):
            s.anon_struct(t)
            for e in t.el: s.touch(e)
        elif isinstance(t, (PtrTy,)): s.touch(t.to)
        elif isinstance(t, (ArrTy, VecTy)): s.touch(t.el)
        elif isinstance(t, FnTy):
            s.touch(t.ret)
            for p in t.params: s.touch(p)

    # -------- values
    def fp_lit(s, text, ty):
        if text.startswith('0x'):
            h = text[2:]
            if h[0] in 'KLMHR': raise NotImplementedError('fp literal ' + text)
            bits = int(h, 16); d = struct.unpack('<d', struct.pack('<Q', bits))[0]
        else: d = float(text)
        if d != d: return '((%s)VP_NAN)' % s.ctype(ty)
        if d in (float('inf'), float('-inf')): return '((%s)%sVP_INF)' % (s.ctype(ty), '-' if d < 0 else '')
        return '((%s)%s)' % (s.ctype(ty), d.hex())

    def val(s, v, ty, fn=None):
        """C expression for value v of LLVM type ty"""
        if isinstance(v, Local): return 'v_' + cid(v.n)
        if isinstance(v, Global):
            n = v.n
            if n in s.m.funcs: return '(%s)&%s' % (s.ctype(ty), cid(n)) if isinstance(ty, PtrTy) else cid(n)
            return '(&g_%s)' % cid(n)
        if isinstance(v, ConstInt):
            rt = s.resolve(ty)
            if isinstance(rt, IntTy):
                w = rt.w; x = v.v & ((1 << w) - 1)
                if w == 1: return '%d' % x
                if w > 64: return '((vp_u128)%dULL << 64 | (vp_u128)%dULL)' % (x >> 64, x & (2**64 - 1))
                return '((%s)%dULL)' % (s.carrier(w), x)
            return '%d' % v.v
        if isinstance(v, ConstFp): return s.fp_lit(v.text, ty)
        if isinstance(v, ConstNull): return '((%s)0)' % s.ctype(ty)
        if isinstance(v, ConstUndef):
            rt = s.resolve(ty)
            if isinstance(rt, (StructTy, ArrTy)): return '(%s){0}' % s.ctype(ty)
            return '((%s)VP_UNDEF)' % s.ctype(ty)
        if isinstance(v, ConstZero):
            rt = s.resolve(ty)
            if isinstance(rt, (StructTy, ArrTy, VecTy)): return '(%s){0}' % s.ctype(ty)
            return '((%s)0)' % s.ctype(ty)
        if isinstance(v, ConstExpr):
            if v.op == 'gep': return s.gep_expr(v.bt, s.val(v.p, v.pt), v.idx)
            if v.op == 'cast': return s.cast_expr(v.cop, v.ft, s.val(v.v, v.ft), v.tt)
            if v.op == 'bin': return s.bin_expr(v.bop, v.ty, s.val(v.a, v.ty), s.val(v.b, v.ty), set())
            if v.op == 'icmp': return s.icmp_expr(v.pred, v.ty, s.val(v.a, v.ty), s.val(v.b, v.ty))
            if v.op == 'select': return '(%s ? %s : %s)' % (s.val(v.c, IntTy(1)), s.val(v.a, v.ty), s.val(v.b, v.ty))
        if isinstance(v, ConstAgg) or isinstance(v, ConstStr):
            return '(%s)%s' % (s.ctype(ty), s.init(v, ty))
        raise ValueError('val %r' % v)

    def init(s, v, ty):
        """C initializer"""
        rt = s.resolve(ty)
        if isinstance(v, ConstStr): return '{' + ','.join(str(b) for b in v.b) + '}'
        if isinstance(v, ConstAgg):
            if isinstance(rt, StructTy) and not rt.el: return '{0}'
            return '{' + ', '.join(s.init(iv, it) for it, iv in v.items) + '}'
        if isinstance(v, (ConstZero, ConstUndef)):
            if isinstance(rt, (StructTy, ArrTy, VecTy)): return '{0}'
            return '0'
        return s.val(v, ty)

    def gep_expr(s, bt, p, idx):
        # p has type bt*
        first = True; e = None; cur = bt
        for it, iv in idx:
            ix = s.val(iv, it)
            rit = s.resolve(it)
            if isinstance(iv, ConstInt): ixs = str(iv.v)
            else: ixs = '(%s)%s' % (s.scarrier(rit.w) if rit.w >= 32 else 'int32_t', ix) if rit.w in (8, 16, 32, 64) else ix
            if first:
                e = '(%s)[%s]' % (p, ixs); first = False
            else:
                rc = s.resolve(cur)
                if isinstance(rc, StructTy):
                    e = '%s.f%d' % (e, iv.v); cur = rc.el[iv.v]
                elif isinstance(rc, (ArrTy, VecTy)):
                    e = '%s[%s]' % (e, ixs); cur = rc.el
                else: raise ValueError('gep into %r' % rc)
        return '(&%s)' % e
    def gep_type(s, bt, idx):
        cur = bt; first = True
        for it, iv in idx:
            if first: first = False; continue
            rc = s.resolve(cur)
            if isinstance(rc, StructTy): cur = rc.el[iv.v]
            else: cur = rc.el
        return PtrTy(cur)

    def sx(s, e, w):
        """signed view of w-bit value e (as C signed integer of carrier width)"""
        if w in (8, 16, 32, 64, 128): return '((%s)%s)' % (s.scarrier(w), e)
        cw = 8 if w < 8 else 16 if w < 16 else 32 if w < 32 else 64 if w < 64 else 128
        return '((%s)((%s)((%s)%s << %d)) >> %d)' % (s.scarrier(cw), s.scarrier(cw), s.carrier(cw), e, cw - w, cw - w)
    def mask(s, e, w):
        if w in (1, 8, 16, 32, 64, 128): return '((%s)(%s))' % (s.carrier(w), e)
        return '((%s)((%s) & %dULL))' % (s.carrier(w), e, (1 << w) - 1)
    def wide(s, w): return 'uint32_t' if w <= 32 else 'uint64_t' if w <= 64 else 'vp_u128'

    def bin_expr(s, op, ty, a, b, flags):
        rt = s.resolve(ty)
        if isinstance(rt, FpTy):
            if op == 'frem': return 'vp_frem(%s, %s)' % (a, b)
            return '(%s %s %s)' % (a, {'fadd': '+', 'fsub': '-', 'fmul': '*', 'fdiv': '/'}[op], b)
        if isinstance(rt, VecTy): raise NotImplementedError('vector binop')
        w = rt.w; W = s.wide(w)
        if w == 1:
            cop = {'add': '^', 'sub': '^', 'xor': '^', 'and': '&', 'or': '|', 'mul': '&'}[op]
            return '((_Bool)((%s %s %s) & 1))' % (a, cop, b)
        if op in ('add', 'sub', 'mul', 'and', 'or', 'xor'):
            cop = {'add': '+', 'sub': '-', 'mul': '*', 'and': '&', 'or': '|', 'xor': '^'}[op]
            return s.mask('(%s)%s %s (%s)%s' % (W, a, cop, W, b), w)
        if op in ('udiv', 'urem'): return s.mask('(%s)%s %s (%s)%s' % (W, a, '/' if op == 'udiv' else '%', W, b), w)
        if op in ('sdiv', 'srem'): return s.mask('%s %s %s' % (s.sx(a, w), '/' if op == 'sdiv' else '%', s.sx(b, w)), w)
        if op == 'shl': return s.mask('(%s)%s << %s' % (W, a, b), w)
        if op == 'lshr': return s.mask('(%s)%s >> %s' % (W, a, b), w)
        if op == 'ashr': return s.mask('%s >> %s' % (s.sx(a, w), b), w)
        raise ValueError(op)

    def icmp_expr(s, pred, ty, a, b):
        rt = s.resolve(ty)
        if isinstance(rt, PtrTy):
            cop = {'eq': '==', 'ne': '!=', 'ugt': '>', 'uge': '>=', 'ult': '<', 'ule': '<=', 'sgt': '>', 'sge': '>=', 'slt': '<', 'sle': '<='}[pred]
            if pred in ('eq', 'ne'): return '((void*)%s %s (void*)%s)' % (a, cop, b)
            return '((char*)%s %s (char*)%s)' % (a, cop, b)
        w = rt.w
        if pred in ('eq', 'ne', 'ugt', 'uge', 'ult', 'ule'):
            cop = {'eq': '==', 'ne': '!=', 'ugt': '>', 'uge': '>=', 'ult': '<', 'ule': '<='}[pred]
            return '(%s %s %s)' % (a, cop, b)
        cop = {'sgt': '>', 'sge': '>=', 'slt': '<', 'sle': '<='}[pred]
        return '(%s %s %s)' % (s.sx(a, w), cop, s.sx(b, w))

    def fcmp_expr(s, pred, a, b):
        T = {'oeq': '(%s == %s)', 'ogt': '(%s > %s)', 'oge': '(%s >= %s)', 'olt': '(%s < %s)', 'ole': '(%s <= %s)',
             'one': '(%s < %s || %s > %s)', 'ord': '(%s == %s && %s == %s)', 'uno': '(%s != %s || %s != %s)',
             'ueq': '!(%s < %s || %s > %s)', 'ugt': '!(%s <= %s)', 'uge': '!(%s < %s)', 'ult': '!(%s >= %s)', 'ule': '!(%s > %s)', 'une': '(%s != %s)',
             'true': '1', 'false': '0'}[pred]
        if pred in ('one', 'ueq'): return T % (a, b, a, b)
        if pred in ('ord', 'uno'): return T % (a, a, b, b)
        if pred in ('true', 'false'): return T
        return T % (a, b)

    def cast_expr(s, cop, ft, v, tt):
        rf = s.resolve(ft); rt = s.resolve(tt)
        if cop == 'bitcast':
            if isinstance(rf, PtrTy) and isinstance(rt, PtrTy): return '((%s)%s)' % (s.ctype(tt), v)
            if isinstance(rf, VecTy) or isinstance(rt, VecTy): raise NotImplementedError('vector bitcast')
            return 'VP_BITCAST(%s, %s, %s)' % (s.ctype(ft), s.ctype(tt), v)
        if cop == 'inttoptr': return '((%s)(uintptr_t)%s)' % (s.ctype(tt), v)
        if cop == 'ptrtoint': return s.mask('(uintptr_t)%s' % v, rt.w)
        if cop == 'trunc': return s.mask(v, rt.w)
        if cop == 'zext': return '((%s)%s)' % (s.carrier(rt.w), v)
        if cop == 'sext':
            if rf.w == 1: return s.mask('(%s ? -1 : 0)' % v, rt.w)
            return s.mask('(%s)%s' % (s.scarrier(rt.w), s.sx(v, rf.w)), rt.w)
        if cop in ('fptosi',): return s.mask('(%s)%s' % (s.scarrier(rt.w), v), rt.w)
        if cop in ('fptoui',): return s.mask('(%s)%s' % (s.carrier(max(rt.w, 8)), v), rt.w)
        if cop == 'sitofp': return '((%s)%s)' % (s.ctype(tt), s.sx(v, rf.w))
        if cop == 'uitofp': return '((%s)%s)' % (s.ctype(tt), v)
        if cop in ('fpext', 'fptrunc'): return '((%s)%s)' % (s.ctype(tt), v)
        raise ValueError(cop)

    # -------- functions
    def fn_proto(s, f):
        ps = []
        for i, (pt, pn, pa) in enumerate(f.params):
            ps.append(s.ctype(pt, ('v_' + cid(pn)) if pn is not None else 'a%d' % i))
        if f.va and ps: ps.append('...')
        return s.ctype(f.ret, '%s(%s)' % (cid(f.name), ', '.join(ps) if ps else ('' if f.va else 'void')))

    def may_throw(s, ins):
        c = ins.callee
        for a in ins.attrs:
            if a == 'nounwind' or 'nounwind' in s.m.attrgroups.get(a, ()): return False
        if isinstance(c, Global) and c.n in s.m.funcs:
            if 'nounwind' in s.m.funcs[c.n].attrs: return False
            if c.n.startswith('llvm.'): return False
        return True

    def emit_function(s, f):
        L = []; types = {}
        for pt, pn, pa in f.params: types[pn] = pt
        # result types
        for b in f.blocks:
            for ins in b.ins:
                if ins.res is None: continue
                types[ins.res] = s.result_type(ins)
        L.append(s.fn_proto(f) + ' {')
        for b in f.blocks:
            for ins in b.ins:
                if ins.res is not None:
                    t = types[ins.res]
                    if not isinstance(t, VoidTy): L.append('  %s;' % s.ctype(t, 'v_' + cid(ins.res)))
                if ins.op == 'alloca':
                    if ins.n is None or isinstance(ins.n[1], ConstInt):
                        n = 1 if ins.n is None else ins.n[1].v
                        L.append('  %s;' % s.ctype(ArrTy(n, ins.ty), 'st_' + cid(ins.res)))
        phis = {}   # block -> list of phi ins
        for b in f.blocks: phis[b.name] = [i for i in b.ins if i.op == 'phi']
        retdummy = '' if isinstance(f.ret, VoidTy) else ' (%s)%s' % (s.ctype(f.ret), '{0}' if isinstance(s.resolve(f.ret), (StructTy, ArrTy)) else '0')
        disp = f.name in DISPATCH
        bnum = {b.name: i for i, b in enumerate(f.blocks)}
        def jump(to):
            return ('{ vp_pc = %d; continue; }' % bnum[to]) if disp else 'goto bb_%s;' % cid(to)
        def edge(frm, to):
            ps = phis[to]
            if not ps: return jump(to)
            parts = []
            for k, p in enumerate(ps):
                v = [x for x, bb in p.inc if bb == frm]
                if not v: raise ValueError('phi missing edge %s->%s' % (frm, to))
                parts.append('%s = %s;' % (s.ctype(p.ty, 'ph%d' % k), s.val(v[0], p.ty)))
            for k, p in enumerate(ps): parts.append('v_%s = ph%d;' % (cid(p.res), k))
            return '{ ' + ' '.join(parts) + ' ' + jump(to) + ' }'
        if disp: L.append('  int vp_pc = 0; for (;;) { switch (vp_pc) {')
        for bi, b in enumerate(f.blocks):
            if disp: L.append(' case %d: ;' % bi)
            elif bi > 0: L.append(' bb_%s: ;' % cid(b.name))
            for ins in b.ins:
                r = ('v_' + cid(ins.res)) if ins.res is not None else None
                op = ins.op
                if op == 'phi': continue
                elif op == 'alloca':
                    if ins.n is None or isinstance(ins.n[1], ConstInt): L.append('  %s = &st_%s[0];' % (r, cid(ins.res)))
                    else: L.append('  %s = (%s)malloc(sizeof(%s) * %s);' % (r, s.ctype(PtrTy(ins.ty)), s.ctype(ins.ty), s.val(ins.n[1], ins.n[0])))
                elif op == 'load': L.append('  %s = *%s;' % (r, s.val(ins.p, ins.pt)))
                elif op == 'store': L.append('  *%s = %s;' % (s.val(ins.p, ins.pt), s.val(ins.v, ins.ty)))
                elif op == 'gep': L.append('  %s = %s;' % (r, s.gep_expr(ins.bt, s.val(ins.p, ins.pt), ins.idx)))
                elif op == 'bin': L.append('  %s = %s;' % (r, s.bin_expr(ins.bop, ins.ty, s.val(ins.a, ins.ty), s.val(ins.b, ins.ty), ins.flags)))
                elif op == 'fneg': L.append('  %s = -%s;' % (r, s.val(ins.a, ins.ty)))
                elif op == 'icmp': L.append('  %s = %s;' % (r, s.icmp_expr(ins.pred, ins.ty, s.val(ins.a, ins.ty), s.val(ins.b, ins.ty))))
                elif op == 'fcmp': L.append('  %s = %s;' % (r, s.fcmp_expr(ins.pred, s.val(ins.a, ins.ty), s.val(ins.b, ins.ty))))
                elif op == 'cast': L.append('  %s = %s;' % (r, s.cast_expr(ins.cop, ins.ft, s.val(ins.v, ins.ft), ins.tt)))
                elif op == 'select': L.append('  %s = %s ? %s : %s;' % (r, s.val(ins.c, ins.ct), s.val(ins.a, ins.ty), s.val(ins.b, ins.ty)))
                elif op == 'freeze': L.append('  %s = %s;' % (r, s.val(ins.v, ins.ty)))
                elif op == 'extractvalue':
                    e = s.val(ins.v, ins.ty); cur = ins.ty
                    for ix in ins.idx:
                        rc = s.resolve(cur)
                        if isinstance(rc, StructTy): e += '.f%d' % ix; cur = rc.el[ix]
                        else: e += '[%d]' % ix; cur = rc.el
                    L.append('  %s = %s;' % (r, e))
                elif op == 'insertvalue':
                    L.append('  %s = %s;' % (r, s.val(ins.v, ins.ty))); e = r; cur = ins.ty
                    for ix in ins.idx:
                        rc = s.resolve(cur)
                        if isinstance(rc, StructTy): e += '.f%d' % ix; cur = rc.el[ix]
                        else: e += '[%d]' % ix; cur = rc.el
                    L.append('  %s = %s;' % (e, s.val(ins.e, ins.et)))
                elif op == 'atomicrmw':
                    p = s.val(ins.p, ins.pt); v = s.val(ins.v, ins.ty)
                    L.append('  %s = *%s;' % (r, p))
                    if ins.rop == 'xchg': L.append('  *%s = %s;' % (p, v))
                    else: L.append('  *%s = %s;' % (p, s.bin_expr({'add': 'add', 'sub': 'sub', 'and': 'and', 'or': 'or', 'xor': 'xor'}[ins.rop], ins.ty, r, v, set())))
                elif op == 'cmpxchg':
                    p = s.val(ins.p, ins.pt)
                    L.append('  %s.f0 = *%s; %s.f1 = (%s.f0 == %s); if (%s.f1) *%s = %s;' % (r, p, r, r, s.val(ins.c, ins.ty), r, p, s.val(ins.n, ins.ty)))
                elif op == 'fence': pass
                elif op == 'landingpad':
                    L.append('  %s.f0 = (uint8_t*)vp_exc_obj; %s.f1 = vp_exc_selector(%s); vp_exc_caught();' % (r, r, ', '.join(['%d' % len(ins.clauses)] + [('(void*)' + s.val(cv, PtrTy(IntTy(8)))) if cv is not None and not isinstance(cv, ConstAgg) else '(void*)0' for ck, cv in ins.clauses])))
                elif op == 'resume':
                    L.append('  vp_exc_resume(%s.f0); return%s;' % (s.val(ins.v, ins.ty), retdummy))
                elif op == 'unreachable': L.append('  VP_UNREACHABLE(); return%s;' % retdummy)
                elif op == 'ret':
                    L.append('  return;' if ins.v is None else '  return %s;' % s.val(ins.v, ins.ty))
                elif op == 'br': L.append('  ' + edge(b.name, ins.dest))
                elif op == 'condbr': L.append('  if (%s) %s else %s' % (s.val(ins.c, IntTy(1)), edge(b.name, ins.a), edge(b.name, ins.b)))
                elif op == 'switch':
                    L.append('  switch (%s) {' % s.val(ins.v, ins.ty))
                    for cv, cl in ins.cases: L.append('    case %s: %s' % (s.val(cv, ins.ty), edge(b.name, cl)))
                    L.append('    default: %s }' % edge(b.name, ins.default))
                elif op in ('call', 'invoke'):
                    s.emit_call(L, f, ins, r, types, retdummy, edge, b)
                else: raise ValueError('emit ' + op)
        if disp: L.append('  } }')
        L.append('}')
        return L

    def result_type(s, ins):
        op = ins.op
        if op in ('bin', 'fneg', 'select', 'phi', 'freeze', 'load', 'landingpad', 'insertvalue'): return ins.ty
        if op in ('icmp', 'fcmp'): return IntTy(1)
        if op == 'cast': return ins.tt
        if op == 'alloca': return PtrTy(ins.ty)
        if op == 'gep': return s.gep_type(ins.bt, ins.idx)
        if op in ('call', 'invoke'): return ins.rt
        if op == 'extractvalue':
            cur = ins.ty
            for ix in ins.idx:
                rc = s.resolve(cur); cur = rc.el[ix] if isinstance(rc, StructTy) else rc.el
            return cur
        if op == 'atomicrmw': return ins.ty
        if op == 'cmpxchg': return StructTy([ins.ty, IntTy(1)], False)
        raise ValueError('result_type ' + op)

    INTRIN_SKIP = ('llvm.lifetime.', 'llvm.assume', 'llvm.experimental.noalias', 'llvm.dbg.', 'llvm.invariant.', 'llvm.prefetch', 'llvm.stacksave', 'llvm.stackrestore')
    def emit_call(s, L, f, ins, r, types, retdummy, edge, b):
        c = ins.callee; args = [s.val(av, at) for at, av, aa in ins.args]
        name = c.n if isinstance(c, Global) else None
        call = None
        if name and name.startswith('llvm.'):
            if name.startswith(s.INTRIN_SKIP): call = ''
            elif name.startswith('llvm.memcpy'): call = 'memcpy(%s, %s, %s)' % tuple(args[:3])
            elif name.startswith('llvm.memmove'): call = 'memmove(%s, %s, %s)' % tuple(args[:3])
            elif name.startswith('llvm.memset'): call = 'memset(%s, %s, %s)' % tuple(args[:3])
            elif name.startswith('llvm.trap') or name.startswith('llvm.ubsantrap'): call = 'VP_TRAP(%s)' % (args[0] if args else '255')
            elif name.startswith('llvm.eh.typeid.for'): call = 'vp_typeid_for(%s)' % args[0]
            else:
                base = name.split('.')[1]; w = ins.args[0][0]
                rw = s.resolve(w)
                suffix = ('%d' % rw.w) if isinstance(rw, IntTy) else rw.k
                if base in ('uadd', 'usub', 'umul', 'sadd', 'ssub', 'smul'):
                    base = base + '_ovf'
                    L.append('  { %s a_ = %s, b_ = %s; %s.f0 = vp_%s_%s(a_, b_, &%s.f1); }' % (s.carrier(rw.w), args[0], args[1], r, base, suffix, r)); return
                call = 'vp_%s_%s(%s)' % (base, suffix, ', '.join(args[:2] if base in ('ctlz', 'cttz', 'abs') else args))
                if base in ('ctlz', 'cttz', 'abs'): call = 'vp_%s_%s(%s)' % (base, suffix, args[0])
        else:
            if name: callee = cid(name)
            else:
                callee = '(%s)' % s.val(c, None)
            call = '%s(%s)' % (callee, ', '.join(args))
        if call:
            if r is not None and not isinstance(ins.rt, VoidTy): L.append('  %s = %s;' % (r, call))
            else: L.append('  %s;' % call)
        thr = not (name and name.startswith('llvm.')) and s.may_throw(ins)
        if ins.op == 'invoke':
            if thr: L.append('  if (vp_exc_pending) %s' % edge(b.name, ins.unwind))
            L.append('  ' + edge(b.name, ins.normal))
        elif thr:
            L.append('  if (vp_exc_pending) return%s;' % retdummy)

    def emit_module(s, only=None):
        m = s.m; H = []; B = []
        H.append('#include "vp_rt.h"')
        # touch all types for anon structs
        for n, t in m.types.items(): s.touch(t)
        # function bodies first (to discover anon struct types)
        bodies = []
        for f in m.funcs.values():
            if f.defined and not f.name.startswith('_GLOBAL__sub_I') and f.name != '__cxx_global_var_init':
                bodies.append(s.emit_function(f))
        gl = []
        for n, (ty, init, const) in m.globals.items():
            s.touch(ty)
            if n.startswith('llvm.'): continue
            if init is None: gl.append('%s;' % s.ctype(ty, 'g_' + cid(n)))
            else: gl.append('%s = %s;' % (s.ctype(ty, 'g_' + cid(n)), s.init(init, ty)))
        protos = []; stubs = []
        for f in m.funcs.values():
            if f.name.startswith('llvm.'): continue
            if f.name in RT_PROVIDED or f.name in RT_INLINE: continue
            for pt, pn, pa in f.params: s.touch(pt)
            s.touch(f.ret)
            protos.append(s.fn_proto(f) + ';')
            if not f.defined and f.name not in RT_INLINE:
                rd = '' if isinstance(f.ret, VoidTy) else ' return (%s)%s;' % (s.ctype(f.ret), '{0}' if isinstance(s.resolve(f.ret), (StructTy, ArrTy)) else '0')
                if any(re.fullmatch(rx, f.name) for rx in NOOP_STUBS): stubs.append(s.fn_proto(f).replace('(void)', '(void)') + ' {' + rd + ' }')
                else: stubs.append(s.fn_proto(f) + ' { VP_UNMODELLED("%s");%s }' % (f.name, rd))
        # struct forward decls + ordered defs
        for n in m.types: H.append('struct %s;' % s.struct_names[n])
        done = set(); order = []
        allstructs = {}
        for n, t in m.types.items():
            if isinstance(t, StructTy): allstructs[('n', n)] = (s.struct_names[n], t)
        changed = True
        while changed:
            changed = False
            for nm, t in list(s.anon_defs):
                if ('a', t.key()) not in allstructs: allstructs[('a', t.key())] = (nm, t); changed = True
                for e in t.el: s.touch(e)
            for k, (nm, t) in list(allstructs.items()):
                for e in t.el: s.touch(e)
            if len(allstructs) != len([1 for _ in allstructs]): changed = True
            n_before = len(s.anon_defs)
            for nm, t in list(s.anon_defs):
                if ('a', t.key()) not in allstructs: changed = True
        for nm, t in s.anon_defs: H.append('struct %s;' % nm)
        def visit(k):
            if k in done: return
            done.add(k)
            if k not in allstructs: return
            nm, t = allstructs[k]; deps = []
            for e in t.el: s.struct_deps(e, deps)
            for d in deps: visit(d)
            order.append(k)
        for k in list(allstructs): visit(k)
        for k in order:
            nm, t = allstructs[k]; s.emit_struct_def(nm, t, H)
        return '\n'.join(H + gl_filter(gl) + protos + stubs + ['\n'.join(b) for b in bodies]) + '\n'

def gl_filter(gl): return gl

RT_INLINE = set('''__cxa_allocate_exception __cxa_free_exception __cxa_throw __cxa_begin_catch __cxa_end_catch __cxa_rethrow _ZSt9terminatev __clang_call_terminate
 _Znwm _Znam _ZdlPv _ZdaPv _ZdlPvm _ZSt20__throw_length_errorPKc _ZSt28__throw_bad_array_new_lengthv _ZSt17__throw_bad_allocv _ZSt24__throw_out_of_range_fmtPKcz
 _ZSt19__throw_logic_errorPKc _ZSt20__throw_out_of_rangePKc _ZSt25__throw_bad_function_callv __assert_fail __gxx_personality_v0 __cxa_atexit'''.split())
NOOP_STUBS = [r'_ZNSt\d+[a-z_]+(error|argument|exception|range|alloc|cast|length)[CD][012]E.*', r'_ZNSt8ios_base4Init[CD]1Ev']
RT_PROVIDED = {'memcpy', 'memmove', 'memset', 'malloc', 'free', 'strlen', 'memcmp', 'abort'}

DISPATCH = set()
if __name__ == '__main__':
    DISPATCH = set(sys.argv[3].split(',')) if len(sys.argv) > 3 else set()
    src = open(sys.argv[1]).read()
    m = parse_module(src)
    e = Emitter(m)
    open(sys.argv[2], 'w').write(e.emit_module())
