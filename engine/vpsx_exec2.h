// vpsx — executor part 2 (included inside struct Exec): integer and floating-point semantics
  static double bitsToD(uint64_t u, bool dbl) { if (dbl) { double d; memcpy(&d, &u, 8); return d; } float f; uint32_t x = (uint32_t)u; memcpy(&f, &x, 4); return f; }
  static uint64_t dToBits(double d, bool dbl) { if (dbl) { uint64_t u; memcpy(&u, &d, 8); return u; } float f = (float)d; uint32_t x; memcpy(&x, &f, 4); return x; }
  static uint64_t fpApply(unsigned op, uint64_t ux, uint64_t uy, bool dbl) {
    if (dbl) { double x = bitsToD(ux, true), y = bitsToD(uy, true), r;
      switch (op) { case Instruction::FAdd: r = x + y; break; case Instruction::FSub: r = x - y; break; case Instruction::FMul: r = x * y; break; case Instruction::FDiv: r = x / y; break; case Instruction::FRem: r = std::fmod(x, y); break; default: throw Unsupported{"fp op"}; }
      return dToBits(r, true); }
    float x = (float)bitsToD(ux, false), y = (float)bitsToD(uy, false), r;
    switch (op) { case Instruction::FAdd: r = x + y; break; case Instruction::FSub: r = x - y; break; case Instruction::FMul: r = x * y; break; case Instruction::FDiv: r = x / y; break; case Instruction::FRem: r = std::fmod(x, y); break; default: throw Unsupported{"fp op"}; }
    uint32_t u; memcpy(&u, &r, 4); return u;
  }
  Val binop(unsigned op, const Val& a, const Val& b, Type* ty) {
    if (a.isAgg) { Val r; r.isAgg = true; Type* et = cast<FixedVectorType>(ty)->getElementType(); for (size_t i = 0; i < a.agg.size(); i++) r.agg.push_back(binop(op, a.agg[i], b.agg[i], et)); return r; }
    if (ty->isFloatingPointTy()) return fpbin(op, a, b, ty);
    if (!a.sym && !b.sym) {
      const APInt &x = a.c, &y = b.c; unsigned W = x.getBitWidth();
      switch (op) {
        case Instruction::Add: return Val::concAP(x + y); case Instruction::Sub: return Val::concAP(x - y); case Instruction::Mul: return Val::concAP(x * y);
        case Instruction::UDiv: case Instruction::SDiv: case Instruction::URem: case Instruction::SRem:
          if (y.isZero()) { violation(*curSt, "ub", "integer division by zero", nullptr); throw PathEnd{}; }
          if ((op == Instruction::SDiv || op == Instruction::SRem) && y.isAllOnes() && x.isMinSignedValue()) { violation(*curSt, "ub", "signed division overflow", nullptr); throw PathEnd{}; }
          return Val::concAP(op == Instruction::UDiv ? x.udiv(y) : op == Instruction::SDiv ? x.sdiv(y) : op == Instruction::URem ? x.urem(y) : x.srem(y));
        case Instruction::And: return Val::concAP(x & y); case Instruction::Or: return Val::concAP(x | y); case Instruction::Xor: return Val::concAP(x ^ y);
        case Instruction::Shl: return Val::concAP(y.uge(W) ? APInt(W, 0) : x.shl(y)); case Instruction::LShr: return Val::concAP(y.uge(W) ? APInt(W, 0) : x.lshr(y));
        case Instruction::AShr: return Val::concAP(x.ashr(y.uge(W) ? APInt(W, W - 1) : y));
      }
    }
    z3::expr x = toExpr(a), y = toExpr(b);
    switch (op) {
      case Instruction::Add: return fromExpr(x + y); case Instruction::Sub: return fromExpr(x - y); case Instruction::Mul: return fromExpr(x * y);
      case Instruction::UDiv: case Instruction::SDiv: case Instruction::URem: case Instruction::SRem: {
        if (b.sym) { z3::expr z = (y == bvc(0, b.w)); if (feasible(*curSt, z)) { violation(*curSt, "ub", "integer division by zero", &z); curSt->pc.push_back(!z); if (!feasible(*curSt, Z->bool_val(true))) throw PathEnd{}; } }
        z3::expr rr = op == Instruction::UDiv ? z3::udiv(x, y) : op == Instruction::SDiv ? x / y : op == Instruction::URem ? z3::urem(x, y) : z3::srem(x, y);
        // valid range lemmas for division by a non-zero constant (tautologies; they spare the solver from deriving them through the bit-blasted divider)
        if (!b.sym && !b.c.isZero() && curSt) { unsigned W = b.w; z3::expr zero = bvc(0, W);
          if (op == Instruction::URem) curSt->pc.push_back(z3::ult(rr, y) && z3::implies(z3::ult(x, y), rr == x));
          else if (op == Instruction::UDiv) curSt->pc.push_back(z3::ule(rr, toExpr(Val::concAP(APInt::getMaxValue(W).udiv(b.c)))));
          else if (op == Instruction::SRem && b.c.isStrictlyPositive()) curSt->pc.push_back(rr < y && rr > -y && z3::implies(x >= zero, rr >= zero) && z3::implies(x <= zero, rr <= zero) && z3::implies(x < y && x > -y, rr == x)); }
        return fromExpr(rr); }
      case Instruction::And: return fromExpr(x & y); case Instruction::Or: return fromExpr(x | y); case Instruction::Xor: return fromExpr(x ^ y);
      case Instruction::Shl: return fromExpr(z3::shl(x, y)); case Instruction::LShr: return fromExpr(z3::lshr(x, y)); case Instruction::AShr: return fromExpr(z3::ashr(x, y));
    }
    throw Unsupported{"binop"};
  }
  z3::expr toFP(const Val& v, Type* ty) { z3::expr bv = toExpr(v); z3::sort s = ty->isDoubleTy() ? Z->fpa_sort(11, 53) : Z->fpa_sort(8, 24); return z3::expr(*Z, Z3_mk_fpa_to_fp_bv(*Z, bv, s)); }
  // keep only the items of a grid set that are feasible under the path condition
  void restrictFS(State& st, FSet& A) { if (A.size() < 2) return; FSet R; for (auto& x : A) if (feasible(st, x.first)) R.push_back(x); A.swap(R); }
  Val fpbin(unsigned op, const Val& a, const Val& b, Type* ty) {
    bool dbl = ty->isDoubleTy(); unsigned W = dbl ? 64 : 32;
    if (!ty->isDoubleTy() && !ty->isFloatTy()) throw Unsupported{"fp type other than float/double"};
    if (!a.sym && !b.sym) return Val::conc(W, fpApply(op, a.u(), b.u(), dbl));
    if (fsLike(a) && fsLike(b)) { auto A = fsOf(a), B = fsOf(b); FSet R;
      if (A.size() * B.size() > 64 && curSt) { restrictFS(*curSt, A); restrictFS(*curSt, B); }
      if (A.size() * B.size() > 16384) throw Unsupported{"grid FP set too large"};
      for (auto& x : A) for (auto& y : B) R.push_back({x.first && y.first, fpApply(op, x.second, y.second, dbl)});
      return fromFS(W, R); }
    z3::expr x = toFP(a, ty), y = toFP(b, ty); z3::expr rm(*Z, Z3_mk_fpa_rne(*Z)); Z3_ast r;
    switch (op) { case Instruction::FAdd: r = Z3_mk_fpa_add(*Z, rm, x, y); break; case Instruction::FSub: r = Z3_mk_fpa_sub(*Z, rm, x, y); break; case Instruction::FMul: r = Z3_mk_fpa_mul(*Z, rm, x, y); break; case Instruction::FDiv: r = Z3_mk_fpa_div(*Z, rm, x, y); break; default: throw Unsupported{"fp op"}; }
    return fromExpr(z3::expr(*Z, Z3_mk_fpa_to_ieee_bv(*Z, r)));
  }
  Val icmp(CmpInst::Predicate p, const Val& a, const Val& b) {
    if (a.isAgg) { Val r; r.isAgg = true; for (size_t i = 0; i < a.agg.size(); i++) r.agg.push_back(icmp(p, a.agg[i], b.agg[i])); return r; }
    if (!a.sym && !b.sym) { bool r;
      switch (p) { case CmpInst::ICMP_EQ: r = a.c == b.c; break; case CmpInst::ICMP_NE: r = a.c != b.c; break; case CmpInst::ICMP_UGT: r = a.c.ugt(b.c); break; case CmpInst::ICMP_UGE: r = a.c.uge(b.c); break;
        case CmpInst::ICMP_ULT: r = a.c.ult(b.c); break; case CmpInst::ICMP_ULE: r = a.c.ule(b.c); break; case CmpInst::ICMP_SGT: r = a.c.sgt(b.c); break; case CmpInst::ICMP_SGE: r = a.c.sge(b.c); break;
        case CmpInst::ICMP_SLT: r = a.c.slt(b.c); break; case CmpInst::ICMP_SLE: r = a.c.sle(b.c); break; default: throw Unsupported{"icmp"}; }
      return Val::conc(1, r); }
    z3::expr x = toExpr(a), y = toExpr(b), r(*Z);
    switch (p) { case CmpInst::ICMP_EQ: r = x == y; break; case CmpInst::ICMP_NE: r = x != y; break; case CmpInst::ICMP_UGT: r = z3::ugt(x, y); break; case CmpInst::ICMP_UGE: r = z3::uge(x, y); break;
      case CmpInst::ICMP_ULT: r = z3::ult(x, y); break; case CmpInst::ICMP_ULE: r = z3::ule(x, y); break; case CmpInst::ICMP_SGT: r = x > y; break; case CmpInst::ICMP_SGE: r = x >= y; break;
      case CmpInst::ICMP_SLT: r = x < y; break; case CmpInst::ICMP_SLE: r = x <= y; break; default: throw Unsupported{"icmp"}; }
    return fromExpr(b2bv(r));
  }
  static bool fcmpConc(CmpInst::Predicate p, double x, double y) {
    bool un = std::isnan(x) || std::isnan(y);
    switch (p) { case CmpInst::FCMP_FALSE: return false; case CmpInst::FCMP_TRUE: return true;
      case CmpInst::FCMP_OEQ: return !un && x == y; case CmpInst::FCMP_OGT: return !un && x > y; case CmpInst::FCMP_OGE: return !un && x >= y; case CmpInst::FCMP_OLT: return !un && x < y; case CmpInst::FCMP_OLE: return !un && x <= y; case CmpInst::FCMP_ONE: return !un && x != y; case CmpInst::FCMP_ORD: return !un;
      case CmpInst::FCMP_UNO: return un; case CmpInst::FCMP_UEQ: return un || x == y; case CmpInst::FCMP_UGT: return un || x > y; case CmpInst::FCMP_UGE: return un || x >= y; case CmpInst::FCMP_ULT: return un || x < y; case CmpInst::FCMP_ULE: return un || x <= y; case CmpInst::FCMP_UNE: return un || x != y; default: throw Unsupported{"fcmp"}; }
  }
  // IEEE comparison encoded on the bit patterns (exact; much faster than z3's FPA theory)
  Val fcmp(CmpInst::Predicate p, const Val& a, const Val& b, Type* ty) {
    bool dbl = ty->isDoubleTy(); if (!dbl && !ty->isFloatTy()) throw Unsupported{"fcmp type"};
    if (!a.sym && !b.sym) return Val::conc(1, fcmpConc(p, bitsToD(a.u(), dbl), bitsToD(b.u(), dbl)));
    if (fsLike(a) && fsLike(b)) { auto A = fsOf(a), B = fsOf(b); z3::expr r = Z->bool_val(false);
      for (auto& x : A) for (auto& y : B) if (fcmpConc(p, bitsToD(x.second, dbl), bitsToD(y.second, dbl))) r = r || (x.first && y.first);
      return fromExpr(b2bv(r)); }
    unsigned W = dbl ? 64 : 32, EB = dbl ? 11 : 8, MB = W - 1 - EB;
    z3::expr xa = toExpr(a), xb = toExpr(b);
    auto isnan = [&](z3::expr v) { return v.extract(W - 2, MB) == bvc((1u << EB) - 1, EB) && v.extract(MB - 1, 0) != bvc(0, MB); };
    auto iszero = [&](z3::expr v) { return v.extract(W - 2, 0) == bvc(0, W - 1); };
    auto key = [&](z3::expr v) { return z3::ite(v.extract(W - 1, W - 1) == bvc(1, 1), ~v, v | bvc(1ULL << (W - 1), W)); };
    z3::expr un = isnan(xa) || isnan(xb), bothz = iszero(xa) && iszero(xb);
    z3::expr eq = !un && (bothz || xa == xb), lt = !un && !bothz && z3::ult(key(xa), key(xb)), gt = !un && !bothz && z3::ugt(key(xa), key(xb));
    z3::expr le = lt || eq, ge = gt || eq, r(*Z);
    switch (p) { case CmpInst::FCMP_FALSE: r = Z->bool_val(false); break; case CmpInst::FCMP_TRUE: r = Z->bool_val(true); break;
      case CmpInst::FCMP_OEQ: r = eq; break; case CmpInst::FCMP_OGT: r = gt; break; case CmpInst::FCMP_OGE: r = ge; break; case CmpInst::FCMP_OLT: r = lt; break; case CmpInst::FCMP_OLE: r = le; break; case CmpInst::FCMP_ONE: r = lt || gt; break; case CmpInst::FCMP_ORD: r = !un; break;
      case CmpInst::FCMP_UNO: r = un; break; case CmpInst::FCMP_UEQ: r = un || eq; break; case CmpInst::FCMP_UGT: r = !le; break; case CmpInst::FCMP_UGE: r = !lt; break; case CmpInst::FCMP_ULT: r = !ge; break; case CmpInst::FCMP_ULE: r = !gt; break; case CmpInst::FCMP_UNE: r = !eq; break; default: throw Unsupported{"fcmp"}; }
    return fromExpr(b2bv(r));
  }
  // exact int(<=32 bit) -> double at bit-vector level
  z3::expr i32ToDoubleBV(z3::expr x, bool sgn) {
    z3::expr neg = sgn ? (x < bvc(0, 32)) : Z->bool_val(false); z3::expr mag = z3::ite(neg, -x, x);
    z3::expr res = bvc(0, 64);
    for (int hb = 0; hb <= 31; hb++) {
      z3::expr frac = hb == 0 ? bvc(0, 52) : z3::concat(mag.extract(hb - 1, 0), bvc(0, 52 - hb));
      z3::expr body = z3::concat(bvc(1023 + hb, 11), frac);
      z3::expr top = hb == 31 ? Z->bool_val(true) : (mag.extract(31, hb + 1) == bvc(0, 31 - hb));
      res = z3::ite(mag.extract(hb, hb) == bvc(1, 1) && top, z3::concat(z3::ite(neg, bvc(1, 1), bvc(0, 1)), body), res); }
    return res;
  }
  // exact float -> double at bit-vector level
  z3::expr fpextBV(z3::expr f) {
    z3::expr s = f.extract(31, 31), ex = f.extract(30, 23), m = f.extract(22, 0);
    z3::expr normal = z3::concat(s, z3::concat(z3::zext(ex, 3) + bvc(1023 - 127, 11), z3::concat(m, bvc(0, 29))));
    z3::expr infnan = z3::concat(s, z3::concat(bvc(0x7ff, 11), z3::concat(m, bvc(0, 29))));
    z3::expr zero = z3::concat(s, bvc(0, 63));
    z3::expr sub = zero;   // subnormal float: value = m * 2^-149; normalise
    for (int hb = 0; hb <= 22; hb++) {
      z3::expr frac = hb == 0 ? bvc(0, 52) : z3::concat(m.extract(hb - 1, 0), bvc(0, 52 - hb));
      z3::expr top = hb == 22 ? Z->bool_val(true) : (m.extract(22, hb + 1) == bvc(0, 22 - hb));
      sub = z3::ite(m.extract(hb, hb) == bvc(1, 1) && top, z3::concat(s, z3::concat(bvc(1023 - 149 + hb, 11), frac)), sub); }
    return z3::ite(ex == bvc(0xff, 8), infnan, z3::ite(ex == bvc(0, 8), z3::ite(m == bvc(0, 23), zero, sub), normal));
  }
  Val castv(unsigned op, const Val& v, Type* from, Type* to) {
    if (v.isAgg && to->isVectorTy() && from->isVectorTy() && cast<FixedVectorType>(to)->getNumElements() == v.agg.size()) { Val r; r.isAgg = true; for (auto& x : v.agg) r.agg.push_back(castv(op, x, cast<FixedVectorType>(from)->getElementType(), cast<FixedVectorType>(to)->getElementType())); return r; }
    unsigned tw = DL.getTypeSizeInBits(to);
    switch (op) {
      case Instruction::BitCast:
        if (v.isAgg || to->isVectorTy()) { // vector <-> scalar / vector reinterpretation through bits
          std::vector<Val> flat; if (v.isAgg) flat = v.agg; else flat.push_back(v);
          z3::expr all = toExpr(flat[0]); for (size_t i = 1; i < flat.size(); i++) all = z3::concat(toExpr(flat[i]), all);
          if (!to->isVectorTy()) return fromExpr(all);
          auto* vt = cast<FixedVectorType>(to); unsigned ew = DL.getTypeSizeInBits(vt->getElementType()); Val r; r.isAgg = true;
          for (unsigned i = 0; i < vt->getNumElements(); i++) r.agg.push_back(fromExpr(all.extract(ew * i + ew - 1, ew * i))); return r; }
        [[fallthrough]];
      case Instruction::IntToPtr: case Instruction::PtrToInt: case Instruction::AddrSpaceCast: case Instruction::ZExt: case Instruction::Trunc:
        if (v.isAgg) throw Unsupported{"agg cast"};
        if (tw == v.w) return v;
        if (!v.sym) return Val::concAP(v.c.zextOrTrunc(tw));
        return fromExpr(tw > v.w ? z3::zext(*v.e, tw - v.w) : v.e->extract(tw - 1, 0));
      case Instruction::SExt: if (!v.sym) return Val::concAP(v.c.sext(tw)); return fromExpr(z3::sext(*v.e, tw - v.w));
      case Instruction::SIToFP: case Instruction::UIToFP: { bool sg = op == Instruction::SIToFP, dbl = to->isDoubleTy();
        if (!v.sym) { if (dbl) { double d = sg ? (double)v.c.getSExtValue() : (double)v.c.getZExtValue(); return Val::conc(64, dToBits(d, true)); }
          float f = sg ? (float)v.c.getSExtValue() : (float)v.c.getZExtValue(); uint32_t u; memcpy(&u, &f, 4); return Val::conc(32, u); }
        if (dbl && v.w <= 32) { z3::expr x = *v.e; if (v.w < 32) x = sg ? z3::sext(x, 32 - v.w) : z3::zext(x, 32 - v.w); return fromExpr(i32ToDoubleBV(x, sg)); }
        z3::expr rm(*Z, Z3_mk_fpa_rne(*Z)); z3::sort so = dbl ? Z->fpa_sort(11, 53) : Z->fpa_sort(8, 24); Z3_ast r = sg ? Z3_mk_fpa_to_fp_signed(*Z, rm, *v.e, so) : Z3_mk_fpa_to_fp_unsigned(*Z, rm, *v.e, so); return fromExpr(z3::expr(*Z, Z3_mk_fpa_to_ieee_bv(*Z, r))); }
      case Instruction::FPToSI: case Instruction::FPToUI: { bool dbl = from->isDoubleTy(); uint64_t mask = tw == 64 ? ~0ULL : ((1ULL << tw) - 1);
        auto cv = [&](uint64_t bits) { double d = bitsToD(bits, dbl); return (op == Instruction::FPToSI ? (uint64_t)(int64_t)d : (uint64_t)d) & mask; };
        if (!v.sym) return Val::conc(tw, cv(v.u()));
        if (v.fs) { FSet R; for (auto& x : *v.fs) R.push_back({x.first, cv(x.second)}); Val r = fromFS(tw, R); r.fs.reset(); return r; }
        z3::expr rm(*Z, Z3_mk_fpa_rtz(*Z)); z3::expr fp = toFP(v, from); Z3_ast r = op == Instruction::FPToSI ? Z3_mk_fpa_to_sbv(*Z, rm, fp, tw) : Z3_mk_fpa_to_ubv(*Z, rm, fp, tw); return fromExpr(z3::expr(*Z, r)); }
      case Instruction::FPExt: if (!v.sym) return Val::conc(64, dToBits((double)bitsToD(v.u(), false), true));
        if (v.fs) { FSet R; for (auto& x : *v.fs) R.push_back({x.first, dToBits((double)bitsToD(x.second, false), true)}); return fromFS(64, R); }
        return fromExpr(fpextBV(*v.e));
      case Instruction::FPTrunc: if (!v.sym) return Val::conc(32, dToBits(bitsToD(v.u(), true), false));
        if (v.fs) { FSet R; for (auto& x : *v.fs) R.push_back({x.first, dToBits(bitsToD(x.second, true), false)}); return fromFS(32, R); }
        { z3::expr rm(*Z, Z3_mk_fpa_rne(*Z)); Z3_ast r = Z3_mk_fpa_to_fp_float(*Z, rm, toFP(v, from), Z->fpa_sort(8, 24)); return fromExpr(z3::expr(*Z, Z3_mk_fpa_to_ieee_bv(*Z, r))); }
    }
    throw Unsupported{"cast"};
  }
