// vpsx — executor part 1: solver synchronisation, memory model, constants
#pragma once
#include "vpsx_val.h"
#include <llvm/IR/DebugInfoMetadata.h>

struct Options {
  uint64_t maxSteps = 400000000ULL; double budget = 1e18; bool concrete = false; std::vector<std::pair<std::string, uint64_t>> concInputs;
  unsigned maxViolations = 40, maxSamples = 12; unsigned queryTimeoutMs = 120000; bool verbose = false; std::string randomDevice;
};
static Options OPT;
static std::chrono::steady_clock::time_point T0;
static double nowS() { return std::chrono::duration<double>(std::chrono::steady_clock::now() - T0).count(); }

struct Exec {
  Module& M; const DataLayout& DL; z3::solver S; std::vector<z3::expr> asserted;
  DenseMap<const GlobalValue*, uint64_t> gaddr; std::map<uint64_t, Function*> faddr; std::map<uint64_t, const GlobalValue*> gByAddr;
  DenseMap<const Value*, unsigned> slot; DenseMap<const Function*, unsigned> nslots; DenseSet<const Function*> fnSeen;
  std::map<std::string, int> typeIds; Type* I64; DenseSet<const BasicBlock*> bbSeen; std::set<std::string> srcFns;
  void noteBB(const BasicBlock* b) { if (!bbSeen.insert(b).second) return; for (auto& I : *b) { const DILocation* l = I.getDebugLoc().get(); while (l) { if (auto* sp = l->getScope()->getSubprogram()) { StringRef n = sp->getLinkageName(); if (!n.empty()) srcFns.insert(n.str()); } l = l->getInlinedAt(); } } }
  BasicBlock::iterator curIt; std::vector<State>* curOut = nullptr; State* curSt = nullptr; bool throwNow = false; std::vector<State> dummy;
  Exec(Module& m) : M(m), DL(m.getDataLayout()), S(*Z) {
    I64 = Type::getInt64Ty(M.getContext());
    z3::params p(*Z); p.set("timeout", OPT.queryTimeoutMs); S.set(p);
    for (Function& F : M) { unsigned n = 0; for (auto& a : F.args()) slot[&a] = n++; for (auto& B : F) for (auto& I : B) slot[&I] = n++; nslots[&F] = n; }
  }

  // ---- solver
  void sync(State& st) {
    size_t k = 0;
    while (k < asserted.size() && k < st.pc.size() && z3::eq(asserted[k], st.pc[k])) k++;
    while (asserted.size() > k) { S.pop(); asserted.pop_back(); }
    while (asserted.size() < st.pc.size()) { S.push(); S.add(st.pc[asserted.size()]); asserted.push_back(st.pc[asserted.size()]); }
  }
  // 1 = true in witness, 0 = false, -1 = no valid witness
  int witEval(State& st, const z3::expr& cond) {
    if (!st.wit) return -1;
    for (size_t i = st.witLen; i < st.pc.size(); i++) if (!st.wit->eval(st.pc[i], true).is_true()) { st.wit.reset(); return -1; }
    st.witLen = st.pc.size();
    z3::expr v = st.wit->eval(cond, true);
    return v.is_true() ? 1 : v.is_false() ? 0 : -1;
  }
  // solver query: is pc && cond satisfiable?  On sat optionally returns the model.
  bool query(State& st, const z3::expr& cond, std::shared_ptr<z3::model>* mout = nullptr) {
    if (nowS() > OPT.budget) throw Unsupported{"wall-clock budget exhausted"};
    sync(st); auto t0 = std::chrono::steady_clock::now();
    S.push(); S.add(cond); auto r = S.check();
    if (r == z3::sat && mout) *mout = std::make_shared<z3::model>(S.get_model());
    S.pop();
    { double dt = std::chrono::duration<double>(std::chrono::steady_clock::now() - t0).count(); ST.queries++; ST.solverSec += dt;
      if (OPT.verbose && dt > 2.0) { std::string q = cond.to_string(); errs() << "[vpsx] slow query " << dt << "s result=" << (r == z3::sat ? "sat" : r == z3::unsat ? "unsat" : "unknown") << " pc=" << st.pc.size() << " cond=" << q.substr(0, 600) << "\n"; } }
    if (r == z3::unknown) throw Unsupported{"solver returned unknown: " + S.reason_unknown()};
    return r == z3::sat;
  }
  bool feasible(State& st, const z3::expr& cond) {
    if (witEval(st, cond) == 1) { ST.cacheHits++; return true; }
    std::shared_ptr<z3::model> m; bool r = query(st, cond, &m);
    if (r && !st.wit) { st.wit = m; st.witLen = st.pc.size(); }
    return r;
  }
  // decide both sides of a condition with at most one solver call when the witness settles one side.
  // returns bit0 = true side feasible, bit1 = false side feasible; models for the sides in mt/mf when obtained
  int bothSides(State& st, const z3::expr& cond, std::shared_ptr<z3::model>& mt, std::shared_ptr<z3::model>& mf) {
    int w = witEval(st, cond); int r = 0;
    if (w == 1) { ST.cacheHits++; r |= 1; mt = st.wit; if (query(st, !cond, &mf)) r |= 2; }
    else if (w == 0) { ST.cacheHits++; r |= 2; mf = st.wit; if (query(st, cond, &mt)) r |= 1; }
    else { if (query(st, cond, &mt)) r |= 1; if (query(st, !cond, &mf)) r |= 2; }
    return r;
  }
  void addPc(State& st, const z3::expr& c, std::shared_ptr<z3::model> m) { st.pc.push_back(c); if (m) { st.wit = m; st.witLen = st.pc.size(); } }

  std::vector<std::pair<std::string, uint64_t>> modelInputs(State& st, z3::model& m) {
    std::vector<std::pair<std::string, uint64_t>> r;
    for (auto& in : st.inputs) { z3::expr v = m.eval(in.e, true); r.push_back({in.name, v.is_numeral() ? v.get_numeral_uint64() : 0}); }
    return r;
  }
  void violation(State& st, const std::string& kind, const std::string& label, const z3::expr* extra) {
    st.hadViolation = true;
    std::string key = kind + "|" + label; uint64_t& cnt = ST.violCount[key]; cnt++;
    if (cnt > 3 || ST.violations.size() >= OPT.maxViolations) return;   // keep a few models per (kind,label)
    Violation v; v.kind = kind; v.label = label; v.fn = st.stack.empty() ? "" : st.stack.back().fn->getName().str();
    if (OPT.concrete) { v.inputs = OPT.concInputs; }
    else { std::shared_ptr<z3::model> m; z3::expr c = extra ? *extra : Z->bool_val(true); if (query(st, c, &m) && m) v.inputs = modelInputs(st, *m); }
    ST.violations.push_back(v);
    if (OPT.verbose) errs() << "VPSX-VIOLATION " << kind << ": " << label << " in " << v.fn << "\n";
  }

  // ---- memory
  ObjP alloc(State& st, uint64_t size, const char* kind, bool heap) {
    if (size > (1u << 26)) throw Unsupported{"allocation larger than 64 MiB"};
    auto o = std::make_shared<Object>(); o->base = st.nextAddr; o->size = size; o->kind = kind; o->c.assign(size, 0); o->isHeap = heap;
    st.nextAddr += ((size + 15) / 16) * 16 + 32; st.mem[o->base] = o; return o;
  }
  ObjP find(State& st, uint64_t addr, uint64_t n, bool write) {
    auto it = st.mem.upper_bound(addr);
    if (it == st.mem.begin()) return nullptr; --it;
    ObjP& o = it->second;
    if (addr < o->base || addr + n > o->base + o->size || addr + n < addr || o->freed) return nullptr;
    if (write && o.use_count() > 1) o = std::make_shared<Object>(*o);
    return o;
  }
  [[noreturn]] void memError(State& st, const std::string& what, uint64_t addr) {
    std::string d = what; auto it = st.mem.upper_bound(addr);
    if (it != st.mem.begin()) { --it; d += " (nearest object below: " + std::string(it->second->kind) + " size=" + std::to_string(it->second->size) + " offset=" + std::to_string((int64_t)(addr - it->second->base)) + (it->second->freed ? " FREED" : "") + ")"; }
    violation(st, "memory", d, nullptr); throw PathEnd{};
  }
  uint64_t concPtr(State& st, const Val& p) {
    if (!p.sym) return p.c.getZExtValue();
    z3::expr e = *p.e; sync(st); S.push(); std::vector<uint64_t> vals; auto tq0 = std::chrono::steady_clock::now();
    while (true) { ST.queries++; auto r = S.check(); if (r == z3::unknown) { S.pop(); throw Unsupported{"solver unknown (pointer enumeration)"}; } if (r != z3::sat) break; auto m = S.get_model(); uint64_t v = m.eval(e, true).get_numeral_uint64(); vals.push_back(v); S.add(e != bvc(v, e.get_sort().bv_size())); if (vals.size() > 256) { S.pop(); throw Unsupported{"symbolic pointer/size with >256 targets"}; } }
    S.pop(); ST.solverSec += std::chrono::duration<double>(std::chrono::steady_clock::now() - tq0).count();
    if (vals.empty()) throw PathEnd{};
    for (size_t i = 1; i < vals.size(); i++) { State s2 = st; s2.pc.push_back(e == bvc(vals[i], e.get_sort().bv_size())); s2.wit.reset(); s2.stack.back().it = curIt; s2.nforks++; curOut->push_back(std::move(s2)); ST.forks++; }
    st.pc.push_back(e == bvc(vals[0], e.get_sort().bv_size())); st.wit.reset(); if (vals.size() > 1) st.nforks++;
    return vals[0];
  }
  Val load(State& st, uint64_t addr, unsigned bits) {
    unsigned n = (bits + 7) / 8; ObjP o = find(st, addr, n, false);
    if (!o) memError(st, "invalid read of " + std::to_string(n) + " bytes", addr);
    uint64_t off = addr - o->base;
    if (!o->s) { if (n <= 8) { uint64_t v = 0; memcpy(&v, &o->c[off], n); Val r = Val::conc(n * 8, v); if (bits < n * 8) r = Val::concAP(r.c.trunc(bits)); return r; }
      APInt v(n * 8, 0); for (unsigned i = 0; i < n; i++) v |= APInt(n * 8, o->c[off + i]) << (8 * i); return Val::concAP(v.trunc(bits)); }
    auto& sb = *o->s;
    if (sb[off].tag && sb[off].tagIdx == 0 && sb[off].tag->w == bits) { bool ok = true; for (unsigned i = 1; i < n; i++) ok &= (sb[off + i].tag == sb[off].tag && sb[off + i].tagIdx == i); if (ok) return *sb[off].tag; }
    bool anySym = false; for (unsigned i = 0; i < n; i++) anySym |= sb[off + i].sym();
    if (!anySym) { APInt v(n * 8, 0); for (unsigned i = 0; i < n; i++) v |= APInt(n * 8, o->c[off + i]) << (8 * i); return Val::concAP(v.trunc(bits)); }
    auto be = [&](unsigned i) { return sb[off + i].sym() ? *sb[off + i].e : bvc(o->c[off + i], 8); };
    z3::expr e = be(n - 1); for (int i = (int)n - 2; i >= 0; i--) e = z3::concat(e, be(i));
    if (bits < n * 8) e = e.extract(bits - 1, 0);
    return fromExpr(e);
  }
  void store(State& st, uint64_t addr, const Val& v) {
    unsigned n = (v.w + 7) / 8; ObjP o = find(st, addr, n, true);
    if (!o) memError(st, "invalid write of " + std::to_string(n) + " bytes", addr);
    if (o->ro) memError(st, "write to constant", addr);
    uint64_t off = addr - o->base;
    if (!v.sym) { if (o->s) for (unsigned i = 0; i < n; i++) (*o->s)[off + i] = SymB();
      if (n <= 8) { uint64_t x = v.c.getZExtValue(); memcpy(&o->c[off], &x, n); } else { APInt c = v.c.zext(n * 8); for (unsigned i = 0; i < n; i++) o->c[off + i] = (uint8_t)c.extractBitsAsZExtValue(8, 8 * i); }
      return; }
    o->needS(); auto& sb = *o->s; std::shared_ptr<Val> tg = std::make_shared<Val>(v);
    z3::expr e = *v.e; if (v.w < n * 8) e = z3::zext(e, n * 8 - v.w);
    for (unsigned i = 0; i < n; i++) { SymB& b = sb[off + i]; b.tag = tg; b.tagIdx = i; z3::expr x = e.extract(8 * i + 7, 8 * i).simplify();
      if (x.is_numeral()) { b.e.reset(); o->c[off + i] = (uint8_t)x.get_numeral_uint64(); } else { b.e = std::make_shared<z3::expr>(x); } }
  }
  Val loadTy(State& st, uint64_t addr, Type* t) {
    if (auto* sty = dyn_cast<StructType>(t)) { Val r; r.isAgg = true; auto* sl = DL.getStructLayout(sty); for (unsigned i = 0; i < sty->getNumElements(); i++) r.agg.push_back(loadTy(st, addr + sl->getElementOffset(i), sty->getElementType(i))); return r; }
    if (auto* aty = dyn_cast<ArrayType>(t)) { Val r; r.isAgg = true; uint64_t es = DL.getTypeAllocSize(aty->getElementType()); for (unsigned i = 0; i < aty->getNumElements(); i++) r.agg.push_back(loadTy(st, addr + i * es, aty->getElementType())); return r; }
    if (auto* vty = dyn_cast<FixedVectorType>(t)) { Val r; r.isAgg = true; uint64_t es = DL.getTypeStoreSize(vty->getElementType()); for (unsigned i = 0; i < vty->getNumElements(); i++) r.agg.push_back(loadTy(st, addr + i * es, vty->getElementType())); return r; }
    return load(st, addr, DL.getTypeSizeInBits(t));
  }
  void storeTy(State& st, uint64_t addr, const Val& v, Type* t) {
    if (auto* sty = dyn_cast<StructType>(t)) { auto* sl = DL.getStructLayout(sty); for (unsigned i = 0; i < sty->getNumElements(); i++) storeTy(st, addr + sl->getElementOffset(i), v.agg[i], sty->getElementType(i)); return; }
    if (auto* aty = dyn_cast<ArrayType>(t)) { uint64_t es = DL.getTypeAllocSize(aty->getElementType()); for (unsigned i = 0; i < aty->getNumElements(); i++) storeTy(st, addr + i * es, v.agg[i], aty->getElementType()); return; }
    if (auto* vty = dyn_cast<FixedVectorType>(t)) { uint64_t es = DL.getTypeStoreSize(vty->getElementType()); for (unsigned i = 0; i < vty->getNumElements(); i++) storeTy(st, addr + i * es, v.agg[i], vty->getElementType()); return; }
    store(st, addr, v);
  }
  std::string readStr(State& st, uint64_t p) { std::string s; while (true) { Val b = load(st, p++, 8); if (b.sym || b.c.isZero()) break; s.push_back((char)b.c.getZExtValue()); } return s; }

  // ---- globals and constants
  void initGlobals(State& st) {
    uint64_t fa = 0x1000;
    for (Function& F : M) { gaddr[&F] = fa; faddr[fa] = &F; fa += 16; }
    for (GlobalVariable& G : M.globals()) { uint64_t sz = G.getValueType()->isSized() ? DL.getTypeAllocSize(G.getValueType()) : 8; auto o = alloc(st, sz ? sz : 1, "global", false); gaddr[&G] = o->base; gByAddr[o->base] = &G; }
    for (GlobalAlias& A : M.aliases()) if (auto* t = dyn_cast<GlobalValue>(A.getAliasee()->stripPointerCasts())) gaddr[&A] = gaddr[t];
    for (GlobalVariable& G : M.globals()) if (G.hasInitializer()) storeTy(st, gaddr[&G], constVal(G.getInitializer()), G.getValueType());
    for (GlobalVariable& G : M.globals()) if (G.isConstant() && G.hasInitializer()) st.mem[gaddr[&G]]->ro = true;
  }
  Val zeroOf(Type* t) {
    if (auto* sty = dyn_cast<StructType>(t)) { Val r; r.isAgg = true; for (auto* e : sty->elements()) r.agg.push_back(zeroOf(e)); return r; }
    if (auto* aty = dyn_cast<ArrayType>(t)) { Val r; r.isAgg = true; for (unsigned i = 0; i < aty->getNumElements(); i++) r.agg.push_back(zeroOf(aty->getElementType())); return r; }
    if (auto* vty = dyn_cast<FixedVectorType>(t)) { Val r; r.isAgg = true; for (unsigned i = 0; i < vty->getNumElements(); i++) r.agg.push_back(zeroOf(vty->getElementType())); return r; }
    return Val::conc(DL.getTypeSizeInBits(t), 0);
  }
  Val constVal(Constant* C) {
    if (auto* ci = dyn_cast<ConstantInt>(C)) return Val::concAP(ci->getValue());
    if (auto* cf = dyn_cast<ConstantFP>(C)) return Val::concAP(cf->getValueAPF().bitcastToAPInt());
    if (isa<ConstantPointerNull>(C)) return Val::conc(64, 0);
    if (isa<UndefValue>(C) || isa<ConstantAggregateZero>(C)) return zeroOf(C->getType());
    if (auto* gv = dyn_cast<GlobalValue>(C)) { auto it = gaddr.find(gv); if (it == gaddr.end()) throw Unsupported{"global " + gv->getName().str()}; return Val::conc(64, it->second); }
    if (auto* cds = dyn_cast<ConstantDataSequential>(C)) { Val r; r.isAgg = true; for (unsigned i = 0; i < cds->getNumElements(); i++) r.agg.push_back(constVal(cds->getElementAsConstant(i))); return r; }
    if (isa<ConstantStruct>(C) || isa<ConstantArray>(C) || isa<ConstantVector>(C)) { Val r; r.isAgg = true; for (unsigned i = 0; i < C->getNumOperands(); i++) r.agg.push_back(constVal(cast<Constant>(C->getOperand(i)))); return r; }
    if (auto* ce = dyn_cast<ConstantExpr>(C)) {
      switch (ce->getOpcode()) {
        case Instruction::BitCast: case Instruction::IntToPtr: case Instruction::PtrToInt: case Instruction::AddrSpaceCast: case Instruction::Trunc: case Instruction::ZExt: { Val v = constVal(ce->getOperand(0)); unsigned w = DL.getTypeSizeInBits(ce->getType()); if (v.w != w) v = Val::concAP(v.c.zextOrTrunc(w)); return v; }
        case Instruction::GetElementPtr: { Val b = constVal(ce->getOperand(0)); APInt off(64, 0); if (!cast<GEPOperator>(ce)->accumulateConstantOffset(DL, off)) throw Unsupported{"const gep"}; return Val::conc(64, b.c.getZExtValue() + off.getSExtValue()); }
        case Instruction::Add: case Instruction::Sub: { Val a = constVal(ce->getOperand(0)), b = constVal(ce->getOperand(1)); return Val::concAP(ce->getOpcode() == Instruction::Add ? a.c + b.c : a.c - b.c); }
        default: throw Unsupported{std::string("constexpr ") + ce->getOpcodeName()};
      }
    }
    std::string s; raw_string_ostream os(s); C->print(os); throw Unsupported{"constant " + s};
  }
  Val get(State& st, Value* v) {
    if (auto* c = dyn_cast<Constant>(v)) return constVal(c);
    auto it = slot.find(v); if (it == slot.end()) throw Unsupported{"value without slot"};
    Val& r = st.stack.back().regs[it->second];
    if (r.w == 0 && !r.isAgg) { std::string s; raw_string_ostream os(s); v->print(os); throw Unsupported{"undefined register " + s}; }
    return r;
  }
  void setReg(State& st, const Value* v, Val x) { st.stack.back().regs[slot[v]] = std::move(x); }
#include "vpsx_exec2.h"
#include "vpsx_exec3.h"
#include "vpsx_exec4.h"
};
