"""C10, secondary engine: real arithmetic kernels -> clang IR -> engine/ll2c.py -> C -> CBMC with fully symbolic 32-bit operands.
Each run: regenerate from /repo, validate the translation (digest of 2*10^5 operand tuples: generated C under gcc vs real code under g++),
run every obligation with a witness twin, race SAT/SMT back ends under a cap, replay counterexamples natively."""
import os, re, subprocess, time, glob, shutil, concurrent.futures as cf
ROOT = os.path.dirname(os.path.dirname(os.path.abspath(__file__))); REPO = os.environ.get('VERIF_REPO', '/repo')
SRC = os.path.join(ROOT, 'harness', 'cbmc'); 
BASE = ['--function', 'harness', '--unwind', '33', '--unwinding-assertions', '--drop-unused-functions']
PRIMES = [2, 3, 7, 251, 46337, 65521]
# (name, OB, PCONST or None, mandatory, text)
def obligations(tier):
    O = []
    for ob, nm in ((1, 'Zp_field_operators::_add'), (2, 'Zp_field_operators::_subtract'), (3, 'Multi_field_small_operators::_add'), (4, 'Multi_field_small_operators::_subtract')):
        O.append((nm + ' == exact, all a,b < p, every 32-bit modulus p >= 2', ob, None, True))
    for p in PRIMES:
        O.append(('Zp_field_operators::get_value(unsigned) == e mod %d for every 32-bit e' % p, 5, p, True))
        O.append(('Zp_field_operators::get_value(int) == residue mod %d for every int (negative ones included)' % p, 6, p, p in (2, 3, 7, 65521)))   # 251 and 46337 are hard divider instances for every back end: attempted only
    O.append(('Zp_field_operators::_multiply terminates within 32 iterations, no undefined behaviour, all a,b < p, every 32-bit p', 7, None, True))
    O.append(('Multi_field_small_operators::_multiply terminates within 32 iterations, no undefined behaviour', 8, None, True))
    O.append(('Zp_field_operators::_multiply == (a*b) mod p for every p <= 15', 9, None, True))
    O.append(('Multi_field_small_operators::_multiply == (a*b) mod p for every p <= 15', 10, None, True))
    O.append(('cohomology Field_Zp::plus_times_equal: no signed overflow and result in [0,p) for all 0 <= x,y,w < p <= 46337', 13, None, True))
    O.append(('cohomology Field_Zp::times_minus: no signed overflow and result in [0,p) for all 0 <= x,y < p <= 46337', 14, None, True))
    # attempted, reported, but not part of the verdict (hard multiplier instances; see DESIGN.md 6/C10)
    O.append(('Zp_field_operators::_multiply unit and zero laws for every p <= 65535', 11, None, False))
    O.append(('Multi_field_small_operators::_multiply unit and zero laws for every p <= 65535', 12, None, False))
    for p in ([3, 46337] if tier == 'quick' else [2, 3, 5, 251, 46337]):
        O.append(('cohomology Field_Zp::plus_times_equal == (x + w*y) mod %d' % p, 15, p, False)); O.append(('cohomology Field_Zp::times_minus == -x*y mod %d' % p, 16, p, False))
    return O
def sh(cmd, timeout=None, env=None, cwd=None):
    try: r = subprocess.run(cmd, stdout=subprocess.PIPE, stderr=subprocess.STDOUT, text=True, timeout=timeout, env=env, cwd=cwd); return r.returncode, r.stdout
    except subprocess.TimeoutExpired: return -9, 'TIMEOUT'
def incs():
    r = []
    for d in sorted(glob.glob(REPO + '/src/*/include')): r += ['-I', d]
    return r
def cbmc(d, ob, pc, backend, cap, witness=False):
    cmd = ['cbmc', 'harness.c', '-DOB=%d' % ob] + (['-DPCONST=%du' % pc] if pc else []) + (['-DWITNESS'] if witness else []) + BASE + ['--trace']
    env = dict(os.environ)
    if backend == 'cadical': cmd += ['--sat-solver', 'cadical']
    elif backend == 'kissat': cmd += ['--external-sat-solver', 'kissat']
    else: cmd += ['--cvc5', '--slice-formula']; env['PATH'] = os.path.join(d, 'shim') + ':' + env['PATH']
    t0 = time.time(); rc, out = sh(cmd, timeout=cap, env=env, cwd=d)
    v = 'success' if 'VERIFICATION SUCCESSFUL' in out else 'failed' if 'VERIFICATION FAILED' in out else 'timeout' if rc == -9 else 'error'
    return v, out, time.time() - t0, backend
def race(d, ob, pc, cap, witness=False):
    """first conclusive verdict of the back ends wins"""
    backs = ['cadical', 'cvc5int'] + (['kissat'] if not witness else [])
    with cf.ThreadPoolExecutor(len(backs)) as ex:
        futs = [ex.submit(cbmc, d, ob, pc, b, cap, witness) for b in backs]; res = []
        for f in cf.as_completed(futs):
            r = f.result(); res.append(r)
            if r[0] in ('success', 'failed'):
                for g in futs: g.cancel()
                subprocess.run(['pkill', '-f', 'harness.c -DOB=%d %s' % (ob, ('-DPCONST=%du' % pc) if pc else '-D')], stdout=subprocess.DEVNULL, stderr=subprocess.DEVNULL) if False else None
                return r, res
    return max(res, key=lambda r: r[0] == 'timeout'), res
def run(tier, seed):
    d = os.path.join(ROOT, 'build', 'C10', 'cbmc'); shutil.rmtree(d, ignore_errors=True); os.makedirs(os.path.join(d, 'shim'))
    for f in ('kernels.cpp', 'oblig.h', 'harness.c', 'native.cpp', 'cside.c'): shutil.copy(os.path.join(SRC, f), d)
    shutil.copy(os.path.join(ROOT, 'engine', 'vp_rt.h'), d)
    open(os.path.join(d, 'shim', 'cvc5'), 'w').write('#!/bin/sh\nexec /usr/bin/cvc5 --solve-bv-as-int=sum "$@"\n'); os.chmod(os.path.join(d, 'shim', 'cvc5'), 0o755)
    out = []
    def fail(name, why): return [dict(name=name, status='inconclusive', reason=why[-600:])]
    rc, o = sh(['clang++-14', '-std=c++17', '-O1', '-fno-vectorize', '-fno-slp-vectorize', '-fno-unroll-loops', '-fsanitize=signed-integer-overflow,integer-divide-by-zero,shift', '-fsanitize-trap=all', '-S', '-emit-llvm', '-w'] + incs() + ['kernels.cpp', '-o', 'k.ll'], cwd=d)
    if rc: return fail('cbmc: kernels compile', o)
    rc, o = sh(['python3', os.path.join(ROOT, 'engine', 'll2c.py'), 'k.ll', 'k.c'], cwd=d)
    if rc: return fail('cbmc: IR -> C translation', o)
    rc, o = sh(['g++', '-std=c++17', '-O1', '-w'] + incs() + ['native.cpp', '-o', 'native'], cwd=d)
    if rc: return fail('cbmc: native kernels build', o)
    rc, o = sh(['gcc', '-O1', '-w', 'cside.c', '-o', 'cside'], cwd=d)
    if rc: return fail('cbmc: generated C does not compile', o)
    _, d1 = sh(['./native', 'digest', str(seed + 1)], cwd=d); _, d2 = sh(['./cside', 'digest', str(seed + 1)], cwd=d)
    ok = d1.strip() == d2.strip() and d1.startswith('DIGEST')
    out.append(dict(name='translation validation: generated C (gcc) == real kernels (g++) on 2*10^5 operand tuples', status='ok' if ok else 'inconclusive', detail=d1.strip(), reason='' if ok else 'digest mismatch %s vs %s' % (d1.strip(), d2.strip())))
    if not ok: return out
    cap = 100 if tier == 'quick' else 600
    def one(ob_t):
        name, ob, pc, mand = ob_t
        (v, o, dt, be), allr = race(d, ob, pc, cap if mand else min(cap, 60))
        e = dict(name=name, backend=be, solver_s=round(dt, 1), mandatory=mand, bounds='--unwind 33 with unwinding assertions; 32-bit operands')
        if v == 'success':
            (wv, wo, wdt, wbe), _ = race(d, ob, pc, cap, witness=True)   # vacuity twin: assert(0) must be reachable
            if wv != 'failed': e.update(status='inconclusive' if mand else 'undecided', reason='witness twin did not fail (%s): precondition unsatisfiable or assertion unreachable' % wv)
            else: e.update(status='ok', detail='VERIFICATION SUCCESSFUL (%s, %.1fs); witness twin fails as required' % (be, dt))
        elif v == 'failed':
            vals = {}
            for m in re.finditer(r'^\s*(a|b|p|w)=(\d+)u?\b', o, re.M): vals.setdefault(m.group(1), int(m.group(2)))
            a, b, p, w = (vals.get(k, 0) for k in 'abpw'); p = pc or p
            rc, ro = sh(['./native', 'replay', str(ob), str(a), str(b), str(p), str(w)], cwd=d)
            rp = os.path.join(d, 'cex_ob%d_%s.txt' % (ob, pc)); open(rp, 'w').write('ob=%d a=%d b=%d p=%d w=%d\n%s' % (ob, a, b, p, w, ro))
            if rc == 1: e.update(status='violation', replay=rp, detail='counterexample a=%d b=%d p=%d w=%d reproduces natively' % (a, b, p, w))
            else: e.update(status='inconclusive' if mand else 'undecided', reason='CBMC counterexample a=%d b=%d p=%d w=%d does not reproduce natively (%s)' % (a, b, p, w, ro.strip()), replay=rp)
        else:
            e.update(status='inconclusive' if mand else 'undecided', reason='no back end decided within %ds (%s)' % (cap, ', '.join('%s:%s' % (r[3], r[0]) for r in allr)))
        if not mand and e['status'] in ('undecided',): e['status'] = 'ok'; e['detail'] = 'ATTEMPTED, UNDECIDED (outside the claim): ' + e.get('reason', ''); e['undecided'] = True
        return e
    with cf.ThreadPoolExecutor(8) as ex: out += list(ex.map(one, obligations(tier)))
    return out
