// vpsx — executor part 4 (inside struct Exec): the instruction interpreter
  void forkBranch(State& st, const z3::expr& cond, BasicBlock* tb, BasicBlock* fb, std::vector<State>& out) {
    std::shared_ptr<z3::model> mt, mf; int r = bothSides(st, cond, mt, mf);
    if (r == 3) { ST.forks++; st.nforks++; State s2 = st; addPc(s2, !cond, mf); jump(s2, fb); out.push_back(std::move(s2)); addPc(st, cond, mt); jump(st, tb); }
    else if (r == 1) jump(st, tb); else if (r == 2) jump(st, fb); else throw PathEnd{};
  }
  bool yieldOnFork = false;
  void run(State st, std::vector<State>& out) {
    try {
      while (true) {
        Frame& fr = st.stack.back(); Instruction& I = *fr.it; curIt = fr.it; curOut = &out; curSt = &st; ++fr.it; ST.instr++;
        if (yieldOnFork && !out.empty()) { --fr.it; ST.instr--; out.push_back(std::move(st)); return; }   // seeding phase: hand both sides of a fork back to the scheduler
        if (++st.steps > OPT.maxSteps) throw Unsupported{"per-path instruction limit"};
        if ((ST.instr & 0xfffff) == 0 && nowS() > OPT.budget) throw Unsupported{"wall-clock budget exhausted"};
        switch (I.getOpcode()) {
          case Instruction::Alloca: { auto& A = cast<AllocaInst>(I); uint64_t n = 1; if (A.isArrayAllocation()) n = concPtr(st, get(st, A.getArraySize())); auto o = alloc(st, DL.getTypeAllocSize(A.getAllocatedType()) * n, "stack", false); st.stack.back().allocas.push_back(o->base); setReg(st, &I, Val::conc(64, o->base)); break; }
          case Instruction::Load: { auto& L = cast<LoadInst>(I); uint64_t p = concPtr(st, get(st, L.getPointerOperand())); setReg(st, &I, loadTy(st, p, L.getType())); break; }
          case Instruction::Store: { auto& S2 = cast<StoreInst>(I); uint64_t p = concPtr(st, get(st, S2.getPointerOperand())); storeTy(st, p, get(st, S2.getValueOperand()), S2.getValueOperand()->getType()); break; }
          case Instruction::GetElementPtr: { auto& G = cast<GetElementPtrInst>(I); Val base = get(st, G.getPointerOperand()); uint64_t coff = 0; Val soff; bool hasS = false;
            for (auto gti = gep_type_begin(G), e = gep_type_end(G); gti != e; ++gti) { Val idx = get(st, gti.getOperand());
              if (auto* sty = gti.getStructTypeOrNull()) coff += DL.getStructLayout(sty)->getElementOffset(idx.u());
              else { uint64_t es = DL.getTypeAllocSize(gti.getIndexedType()); if (!idx.sym) coff += (uint64_t)idx.c.getSExtValue() * es;
                else { Val i64 = idx.w == 64 ? idx : castv(Instruction::SExt, idx, nullptr, I64); Val t = binop(Instruction::Mul, i64, Val::conc(64, es), I64); soff = hasS ? binop(Instruction::Add, soff, t, I64) : t; hasS = true; } } }
            Val r = binop(Instruction::Add, base, Val::conc(64, coff), I64); if (hasS) r = binop(Instruction::Add, r, soff, I64); setReg(st, &I, r); break; }
          case Instruction::ICmp: { auto& C = cast<ICmpInst>(I); setReg(st, &I, icmp(C.getPredicate(), get(st, C.getOperand(0)), get(st, C.getOperand(1)))); break; }
          case Instruction::FCmp: { auto& C = cast<FCmpInst>(I); setReg(st, &I, fcmp(C.getPredicate(), get(st, C.getOperand(0)), get(st, C.getOperand(1)), C.getOperand(0)->getType())); break; }
          case Instruction::Select: { Val c = get(st, I.getOperand(0)), a = get(st, I.getOperand(1)), b = get(st, I.getOperand(2));
            if (c.isAgg) { Val r; r.isAgg = true; for (size_t i = 0; i < c.agg.size(); i++) { if (c.agg[i].sym) throw Unsupported{"symbolic vector select"}; r.agg.push_back(c.agg[i].c.isZero() ? b.agg[i] : a.agg[i]); } setReg(st, &I, r); break; }
            if (!c.sym) { setReg(st, &I, c.c.isZero() ? b : a); break; }
            z3::expr cc = bv2b(*c.e);
            if (a.isAgg || (!a.isAgg && fsLike(a) && fsLike(b) && (a.fs || b.fs))) {   // fork instead of merging (keeps grid sets small and correlated)
              std::shared_ptr<z3::model> mt, mf; int r = bothSides(st, cc, mt, mf);
              if (r == 3) { ST.forks++; st.nforks++; State s2 = st; addPc(s2, !cc, mf); s2.stack.back().regs[slot[&I]] = b; out.push_back(std::move(s2)); addPc(st, cc, mt); setReg(st, &I, a); }
              else if (r == 1) setReg(st, &I, a); else if (r == 2) setReg(st, &I, b); else throw PathEnd{};
            } else setReg(st, &I, fromExpr(z3::ite(cc, toExpr(a), toExpr(b))));
            break; }
          case Instruction::PHI: throw Unsupported{"phi reached"};
          case Instruction::Br: { auto& B = cast<BranchInst>(I); if (B.isUnconditional()) { jump(st, B.getSuccessor(0)); break; }
            Val c = get(st, B.getCondition());
            if (!c.sym) { jump(st, B.getSuccessor(c.c.isZero() ? 1 : 0)); break; }
            forkBranch(st, bv2b(*c.e), B.getSuccessor(0), B.getSuccessor(1), out); break; }
          case Instruction::Switch: { auto& SW = cast<SwitchInst>(I); Val v = get(st, SW.getCondition());
            if (!v.sym) { jump(st, SW.findCaseValue(ConstantInt::get(M.getContext(), v.c))->getCaseSuccessor()); break; }
            z3::expr notAny = Z->bool_val(true); std::vector<std::pair<z3::expr, BasicBlock*>> alts;
            for (auto& c : SW.cases()) { z3::expr eq = *v.e == toExpr(Val::concAP(c.getCaseValue()->getValue())); alts.push_back({eq, c.getCaseSuccessor()}); notAny = notAny && !eq; }
            alts.push_back({notAny, SW.getDefaultDest()});
            std::vector<std::pair<z3::expr, BasicBlock*>> feas; for (auto& a : alts) if (feasible(st, a.first)) feas.push_back(a);
            if (feas.empty()) throw PathEnd{};
            for (size_t i = 1; i < feas.size(); i++) { State s2 = st; s2.pc.push_back(feas[i].first); s2.wit.reset(); s2.nforks++; jump(s2, feas[i].second); out.push_back(std::move(s2)); ST.forks++; }
            if (feas.size() > 1) st.nforks++;
            st.pc.push_back(feas[0].first); jump(st, feas[0].second); break; }
          case Instruction::Ret: { auto& R = cast<ReturnInst>(I); if (R.getReturnValue()) { Val v = get(st, R.getReturnValue()); ret(st, &v); } else ret(st, nullptr); break; }
          case Instruction::Unreachable: { violation(st, "ub", "reached 'unreachable'", nullptr); throw PathEnd{}; }
          case Instruction::Call: case Instruction::Invoke: {
            auto& CB = cast<CallBase>(I); std::vector<Val> args; args.reserve(CB.arg_size()); for (auto& a : CB.args()) { if (a.get()->getType()->isMetadataTy()) args.push_back(Val::conc(64, 0)); else args.push_back(get(st, a.get())); }
            Function* F = CB.getCalledFunction();
            if (!F) { Value* co = CB.getCalledOperand()->stripPointerCasts(); if (auto* f2 = dyn_cast<Function>(co)) F = f2; else { if (isa<InlineAsm>(co)) { if (!I.getType()->isVoidTy()) throw Unsupported{"inline asm with result"}; if (auto* inv = dyn_cast<InvokeInst>(&I)) jump(st, inv->getNormalDest()); break; }
                Val fp = get(st, CB.getCalledOperand()); uint64_t a = concPtr(st, fp); auto it = faddr.find(a); if (it == faddr.end()) { violation(st, "memory", "indirect call through a non-function pointer", nullptr); throw PathEnd{}; } F = it->second; } }
            if (F->isDeclaration()) {
              throwNow = false;
              if (!handleExternal(st, &CB, F, args, out)) throw Unsupported{"external function " + F->getName().str()};
              if (throwNow) { if (auto* inv = dyn_cast<InvokeInst>(&I)) landing(st, inv->getUnwindDest()); else unwind(st); }
              else if (auto* inv = dyn_cast<InvokeInst>(&I)) jump(st, inv->getNormalDest());
            } else enter(st, F, args, &I);
            break; }
          case Instruction::Resume: unwind(st); break;
          case Instruction::LandingPad: throw Unsupported{"landingpad reached directly"};
          case Instruction::ExtractValue: { auto& E = cast<ExtractValueInst>(I); Val v = get(st, E.getAggregateOperand()); for (unsigned ix : E.indices()) { Val t = v.agg[ix]; v = t; } setReg(st, &I, v); break; }
          case Instruction::InsertValue: { auto& E = cast<InsertValueInst>(I); Val v = get(st, E.getAggregateOperand()); Val* p = &v; for (unsigned ix : E.indices()) p = &p->agg[ix]; *p = get(st, E.getInsertedValueOperand()); setReg(st, &I, v); break; }
          case Instruction::ExtractElement: { Val v = get(st, I.getOperand(0)), ix = get(st, I.getOperand(1)); if (ix.sym) throw Unsupported{"sym extractelement"}; setReg(st, &I, v.agg[ix.u()]); break; }
          case Instruction::InsertElement: { Val v = get(st, I.getOperand(0)), x = get(st, I.getOperand(1)), ix = get(st, I.getOperand(2)); if (ix.sym) throw Unsupported{"sym insertelement"}; v.agg[ix.u()] = x; setReg(st, &I, v); break; }
          case Instruction::ShuffleVector: { auto& SV = cast<ShuffleVectorInst>(I); Val a = get(st, SV.getOperand(0)), b = get(st, SV.getOperand(1)); Val r; r.isAgg = true; unsigned na = a.agg.size(); for (int m : SV.getShuffleMask()) r.agg.push_back(m < 0 ? zeroOf(cast<FixedVectorType>(SV.getType())->getElementType()) : (unsigned)m < na ? a.agg[m] : b.agg[m - na]); setReg(st, &I, r); break; }
          case Instruction::AtomicRMW: { auto& A = cast<AtomicRMWInst>(I); uint64_t p = concPtr(st, get(st, A.getPointerOperand())); Val old = loadTy(st, p, A.getType()); Val v = get(st, A.getValOperand()); Val nv;
            switch (A.getOperation()) { case AtomicRMWInst::Xchg: nv = v; break; case AtomicRMWInst::Add: nv = binop(Instruction::Add, old, v, A.getType()); break; case AtomicRMWInst::Sub: nv = binop(Instruction::Sub, old, v, A.getType()); break; case AtomicRMWInst::And: nv = binop(Instruction::And, old, v, A.getType()); break; case AtomicRMWInst::Or: nv = binop(Instruction::Or, old, v, A.getType()); break; default: throw Unsupported{"atomicrmw op"}; }
            storeTy(st, p, nv, A.getType()); setReg(st, &I, old); break; }
          case Instruction::AtomicCmpXchg: { auto& A = cast<AtomicCmpXchgInst>(I); uint64_t p = concPtr(st, get(st, A.getPointerOperand())); Val old = loadTy(st, p, A.getCompareOperand()->getType()); Val c = icmp(CmpInst::ICMP_EQ, old, get(st, A.getCompareOperand())); if (c.sym) throw Unsupported{"sym cmpxchg"}; if (!c.c.isZero()) storeTy(st, p, get(st, A.getNewValOperand()), A.getNewValOperand()->getType()); Val r; r.isAgg = true; r.agg.push_back(old); r.agg.push_back(c); setReg(st, &I, r); break; }
          case Instruction::Fence: break;
          case Instruction::Freeze: setReg(st, &I, get(st, I.getOperand(0))); break;
          case Instruction::FNeg: { Val v = get(st, I.getOperand(0)); unsigned w = v.w;
            if (v.fs) { FSet R; for (auto& x : *v.fs) R.push_back({x.first, x.second ^ (1ULL << (w - 1))}); setReg(st, &I, fromFS(w, R)); break; }
            setReg(st, &I, binop(Instruction::Xor, v, Val::concAP(APInt::getSignMask(w)), Type::getIntNTy(M.getContext(), w))); break; }
          default:
            if (I.isBinaryOp()) { setReg(st, &I, binop(I.getOpcode(), get(st, I.getOperand(0)), get(st, I.getOperand(1)), I.getType())); break; }
            if (I.isCast()) { setReg(st, &I, castv(I.getOpcode(), get(st, I.getOperand(0)), I.getOperand(0)->getType(), I.getType())); break; }
            { std::string s; raw_string_ostream os(s); I.print(os); throw Unsupported{"instruction " + s}; }
        }
      }
    } catch (PathEnd&) { ST.paths++; if (OPT.verbose && ST.paths % 500 == 0) errs() << "[vpsx] paths=" << ST.paths << " queries=" << ST.queries << " solver_s=" << ST.solverSec << " instr=" << ST.instr << " t=" << nowS() << "\n"; }
  }
