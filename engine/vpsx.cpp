// vpsx: forking symbolic executor for LLVM-14 IR (clang output of harnesses over the real GUDHI headers), z3 as deciding solver.
// usage: vpsx H.ll --out DIR [--entry harness] [--jobs N] [--budget S] [--concrete FILE] [--random-device V] [--verbose]
// Writes DIR/part*.json (one per process); the driver merges them.  Exit: 0 ok, 1 violations, 3 inconclusive.
#include "vpsx_exec1.h"
#include <llvm/IR/Verifier.h>
#include <sys/resource.h>

static std::string jesc(const std::string& s) { std::string r; for (unsigned char ch : s) { if (ch == '"' || ch == '\\') { r += '\\'; r += ch; } else if (ch < 0x20) { char b[8]; snprintf(b, 8, "\\u%04x", ch); r += b; } else r += ch; } return r; }
static void jinputs(std::ostream& o, const std::vector<std::pair<std::string, uint64_t>>& in) { o << "["; for (size_t i = 0; i < in.size(); i++) { if (i) o << ","; o << "[\"" << jesc(in[i].first) << "\"," << in[i].second << "]"; } o << "]"; }
static void writePart(const std::string& dir, int idx, Exec& X, double wall) {
  std::string tmp = dir + "/part" + std::to_string(idx) + ".json.tmp", fin = dir + "/part" + std::to_string(idx) + ".json";
  { std::ofstream o(tmp);
    o << "{\"paths\":" << ST.paths << ",\"instr\":" << ST.instr << ",\"forks\":" << ST.forks << ",\"queries\":" << ST.queries << ",\"solver_s\":" << ST.solverSec << ",\"wall_s\":" << wall
      << ",\"asserts\":" << ST.asserts << ",\"proved\":" << ST.proved << ",\"nontrivial\":" << ST.nontrivial << ",\"assume_ends\":" << ST.assumeEnds << ",\"cache_hits\":" << ST.cacheHits;
    o << ",\"inconclusive\":\"" << jesc(ST.inconclusive) << "\"";
    o << ",\"reached\":["; { bool f = true; for (auto& r : ST.reached) { if (!f) o << ","; f = false; o << "\"" << jesc(r) << "\""; } } o << "]";
    o << ",\"functions\":["; { bool f = true; std::set<std::string> all = X.srcFns; for (auto* F : X.fnSeen) all.insert(F->getName().str()); for (auto& nm : all) { if (!f) o << ","; f = false; o << "\"" << jesc(nm) << "\""; } } o << "]";
    o << ",\"viol_counts\":{"; { bool f = true; for (auto& kv : ST.violCount) { if (!f) o << ","; f = false; o << "\"" << jesc(kv.first) << "\":" << kv.second; } } o << "}";
    o << ",\"violations\":["; for (size_t i = 0; i < ST.violations.size(); i++) { auto& v = ST.violations[i]; if (i) o << ","; o << "{\"kind\":\"" << jesc(v.kind) << "\",\"label\":\"" << jesc(v.label) << "\",\"fn\":\"" << jesc(v.fn) << "\",\"inputs\":"; jinputs(o, v.inputs); o << "}"; } o << "]";
    o << ",\"samples\":["; for (size_t i = 0; i < ST.samples.size(); i++) { if (i) o << ","; jinputs(o, ST.samples[i]); } o << "]";
    o << ",\"digests\":["; for (size_t i = 0; i < ST.sampleDigests.size(); i++) { if (i) o << ","; o << "\"" << ST.sampleDigests[i] << "\""; } o << "]";
    o << "}\n"; }
  rename(tmp.c_str(), fin.c_str());
}
static void resetStats() { ST = Stats(); }

int main(int argc, char** argv) {
  T0 = std::chrono::steady_clock::now();
  std::string file, outdir = ".", entry = "harness"; int jobs = 1; std::string concFile;
  for (int i = 1; i < argc; i++) { std::string a = argv[i];
    if (a == "--out") outdir = argv[++i]; else if (a == "--entry") entry = argv[++i]; else if (a == "--jobs") jobs = atoi(argv[++i]); else if (a == "--budget") OPT.budget = atof(argv[++i]);
    else if (a == "--concrete") concFile = argv[++i]; else if (a == "--random-device") OPT.randomDevice = argv[++i]; else if (a == "--verbose") OPT.verbose = true; else if (a == "--max-steps") OPT.maxSteps = strtoull(argv[++i], 0, 10);
    else if (a == "--max-samples") OPT.maxSamples = atoi(argv[++i]); else if (a == "--query-timeout-ms") OPT.queryTimeoutMs = atoi(argv[++i]); else file = a; }
  if (!concFile.empty()) { OPT.concrete = true; std::ifstream in(concFile); std::string nm; uint64_t v; while (in >> nm >> v) OPT.concInputs.push_back({nm, v}); jobs = 1; }
  { struct rlimit rl; rl.rlim_cur = rl.rlim_max = 1ULL << 30; setrlimit(RLIMIT_STACK, &rl); }
  z3::context ctx; Z = &ctx; LLVMContext C; SMDiagnostic E; auto M = parseIRFile(file, E, C);
  if (!M) { E.print("vpsx", errs()); return 2; }
  Exec X(*M); int rc = 0; std::deque<State> work;
  try {
    State s0; X.initGlobals(s0);
    Function* F = M->getFunction(entry); if (!F) { errs() << "vpsx: no entry function " << entry << "\n"; return 2; }
    { Frame fr; fr.fn = F; fr.bb = &F->getEntryBlock(); fr.it = fr.bb->begin(); fr.regs.resize(X.nslots[F]); s0.stack.push_back(fr); X.fnSeen.insert(F); }
    if (auto* gc = M->getGlobalVariable("llvm.global_ctors")) if (gc->hasInitializer()) if (auto* arr = dyn_cast<ConstantArray>(gc->getInitializer())) {
      std::vector<Function*> ctors; for (auto& op : arr->operands()) if (auto* cs = dyn_cast<ConstantStruct>(op.get())) if (auto* f = dyn_cast<Function>(cs->getOperand(1)->stripPointerCasts())) ctors.push_back(f);
      for (auto it = ctors.rbegin(); it != ctors.rend(); ++it) { Frame cf; cf.fn = *it; cf.bb = &(*it)->getEntryBlock(); cf.it = cf.bb->begin(); cf.regs.resize(X.nslots[*it]); s0.stack.push_back(cf); } }
    // NOTE: a constructor frame "returns" into the frame below it (callsite == nullptr), so ctors run first, then the harness.
    work.push_back(std::move(s0));
    // seeding phase: breadth-first until there are enough states to distribute
    size_t target = jobs > 1 ? (size_t)jobs * 6 : 0; X.yieldOnFork = jobs > 1;
    while (!work.empty() && (jobs <= 1 || work.size() < target)) {
      State s = jobs > 1 ? std::move(work.front()) : std::move(work.back()); if (jobs > 1) work.pop_front(); else work.pop_back();
      std::vector<State> out; X.run(std::move(s), out); for (auto& o : out) work.push_back(std::move(o));
    }
  } catch (Unsupported& u) { ST.inconclusive = u.what; rc = 3; }
  catch (z3::exception& e) { ST.inconclusive = std::string("z3: ") + e.msg(); rc = 3; }
  if (rc == 3 || work.empty() || jobs <= 1) { writePart(outdir, 0, X, nowS()); if (OPT.verbose) errs() << "vpsx: paths=" << ST.paths << " queries=" << ST.queries << " viol=" << ST.violations.size() << " inconclusive=" << ST.inconclusive << "\n"; return rc ? rc : (ST.violCount.empty() ? 0 : 1); }
  // parallel phase: one child process per seeded state, at most `jobs` at a time
  writePart(outdir, 0, X, nowS());
  std::vector<State> seeds; for (auto& s : work) seeds.push_back(std::move(s)); work.clear();
  size_t next = 0; int running = 0; bool bad = false;
  while (next < seeds.size() || running > 0) {
    while (running < jobs && next < seeds.size()) {
      pid_t p = fork();
      if (p == 0) { X.yieldOnFork = false; resetStats(); X.fnSeen.clear(); X.srcFns.clear(); X.bbSeen.clear(); int crc = 0; std::vector<State> st; st.push_back(std::move(seeds[next]));
        try { while (!st.empty()) { State s = std::move(st.back()); st.pop_back(); X.run(std::move(s), st); } }
        catch (Unsupported& u) { ST.inconclusive = u.what; crc = 3; } catch (z3::exception& e) { ST.inconclusive = std::string("z3: ") + e.msg(); crc = 3; }
        writePart(outdir, (int)next + 1, X, nowS()); _exit(crc); }
      if (p < 0) { bad = true; break; }
      next++; running++;
    }
    if (bad) break;
    int status; pid_t w = wait(&status); if (w < 0) break; running--;
    if (!WIFEXITED(status) || (WEXITSTATUS(status) != 0 && WEXITSTATUS(status) != 3)) bad = true;
  }
  { std::ofstream o(outdir + "/done"); o << seeds.size() + 1 << " " << (bad ? "crash" : "ok") << "\n"; }
  return bad ? 3 : 0;
}
