// vpsx — executor part 3 (inside struct Exec): calls, exceptions, environment models, harness API
  void enter(State& st, Function* F, std::vector<Val>& args, Instruction* cs) {
    if (st.stack.size() > 600) throw Unsupported{"stack depth > 600"};
    fnSeen.insert(F); noteBB(&F->getEntryBlock());
    Frame fr; fr.fn = F; fr.bb = &F->getEntryBlock(); fr.it = fr.bb->begin(); fr.callsite = cs; fr.regs.resize(nslots[F]);
    unsigned i = 0; for (auto& a : F->args()) { (void)a; if (i < args.size()) fr.regs[i] = args[i]; i++; }
    st.stack.push_back(std::move(fr));
  }
  void jump(State& st, BasicBlock* to) {
    Frame& fr = st.stack.back(); BasicBlock* from = fr.bb;
    if (isa<PHINode>(to->front())) {
      std::vector<std::pair<unsigned, Val>> ph;
      for (auto& I : *to) { auto* p = dyn_cast<PHINode>(&I); if (!p) break; ph.push_back({slot[p], get(st, p->getIncomingValueForBlock(from))}); }
      for (auto& kv : ph) fr.regs[kv.first] = std::move(kv.second);
    }
    noteBB(to); fr.prev = from; fr.bb = to; fr.it = to->getFirstNonPHI()->getIterator();
  }
  void popFrame(State& st, Frame& fr) { for (uint64_t a : fr.allocas) st.mem.erase(a); }
  void endPath(State& st) {   // harness returned normally
    if (st.nforks > 0 && st.nsymAsserts > 0) ST.nontrivial++;
    if (!OPT.concrete && !st.hadViolation && ST.samples.size() < OPT.maxSamples && (ST.paths % 7 == 0 || ST.samples.empty())) {
      std::shared_ptr<z3::model> m; if (witEval(st, Z->bool_val(true)) == 1) m = st.wit; else query(st, Z->bool_val(true), &m);
      if (m) ST.samples.push_back(modelInputs(st, *m)); }
    if (OPT.concrete) ST.sampleDigests.push_back(st.digest);
    ST.reached.insert("@return");
    throw PathEnd{};
  }
  void ret(State& st, Val* rv) {
    Frame fr = std::move(st.stack.back()); st.stack.pop_back(); popFrame(st, fr);
    if (st.stack.empty()) endPath(st);
    Instruction* cs = fr.callsite;
    if (rv && cs && !cs->getType()->isVoidTy()) setReg(st, cs, *rv);
    if (auto* inv = dyn_cast_or_null<InvokeInst>(cs)) jump(st, inv->getNormalDest());
  }
  int typeId(const std::string& n) { auto it = typeIds.find(n); if (it != typeIds.end()) return it->second; int id = typeIds.size() + 1; typeIds[n] = id; return id; }
  static const char* stdBase(const std::string& n) {
    static const char* tab[][2] = { {"_ZTISt16invalid_argument", "_ZTISt11logic_error"}, {"_ZTISt12out_of_range", "_ZTISt11logic_error"}, {"_ZTISt12length_error", "_ZTISt11logic_error"}, {"_ZTISt12domain_error", "_ZTISt11logic_error"},
      {"_ZTISt11logic_error", "_ZTISt9exception"}, {"_ZTISt13runtime_error", "_ZTISt9exception"}, {"_ZTISt11range_error", "_ZTISt13runtime_error"}, {"_ZTISt14overflow_error", "_ZTISt13runtime_error"}, {"_ZTISt15underflow_error", "_ZTISt13runtime_error"},
      {"_ZTISt9bad_alloc", "_ZTISt9exception"}, {"_ZTISt20bad_array_new_length", "_ZTISt9bad_alloc"}, {"_ZTISt8bad_cast", "_ZTISt9exception"}, {"_ZTISt10bad_typeid", "_ZTISt9exception"}, {"_ZTISt17bad_function_call", "_ZTISt9exception"},
      {"_ZTISt12system_error", "_ZTISt13runtime_error"}, {"_ZTINSt8ios_base7failureB5cxx11E", "_ZTISt12system_error"}, {"_ZTISt18bad_variant_access", "_ZTISt9exception"}, {"_ZTISt19bad_optional_access", "_ZTISt9exception"} };
    for (auto& t : tab) if (n == t[0]) return t[1]; return nullptr;
  }
  bool isBaseOrSame(const std::string& thrown, const std::string& catcher, int depth = 0) {
    if (thrown == catcher) return true; if (depth > 12) return false;
    if (auto* g = M.getGlobalVariable(thrown, true)) if (g->hasInitializer()) if (auto* cs = dyn_cast<ConstantStruct>(g->getInitializer()))
      for (unsigned i = 2; i < cs->getNumOperands(); i++) if (auto* b = dyn_cast<GlobalVariable>(cs->getOperand(i)->stripPointerCasts())) if (b->getName().startswith("_ZTI") && isBaseOrSame(b->getName().str(), catcher, depth + 1)) return true;
    if (const char* b = stdBase(thrown)) return isBaseOrSame(b, catcher, depth + 1);
    return false;
  }
  void unwind(State& st) {
    while (true) {
      Frame fr = std::move(st.stack.back()); st.stack.pop_back(); popFrame(st, fr);
      if (st.stack.empty()) { violation(st, "uncaught-exception", st.excType, nullptr); ST.reached.insert("@uncaught"); throw PathEnd{}; }
      if (auto* inv = dyn_cast_or_null<InvokeInst>(fr.callsite)) { landing(st, inv->getUnwindDest()); return; }
    }
  }
  void landing(State& st, BasicBlock* lp) {
    jump(st, lp); Frame& fr = st.stack.back(); auto* L = cast<LandingPadInst>(&*fr.it); ++fr.it;
    int sel = 0;
    for (unsigned i = 0; i < L->getNumClauses() && !sel; i++) if (L->isCatch(i)) {
      Value* c = L->getClause(i)->stripPointerCasts();
      if (isa<ConstantPointerNull>(c)) sel = 0x7ff0;
      else if (auto* g = dyn_cast<GlobalValue>(c)) { if (isBaseOrSame(st.excType, g->getName().str())) sel = typeId(g->getName().str()); } }
    Val r; r.isAgg = true; r.agg.push_back(Val::conc(64, st.excObj)); r.agg.push_back(Val::conc(32, sel)); fr.regs[slot[L]] = r;
    if (sel == 0 && !L->isCleanup()) unwind(st);
  }
  std::string typeNameAt(uint64_t addr) { auto it = gByAddr.find(addr); return it == gByAddr.end() ? "?type@" + std::to_string(addr) : it->second->getName().str(); }

  void digestBytes(State& st, const void* p, size_t n) { const unsigned char* c = (const unsigned char*)p; for (size_t i = 0; i < n; i++) { st.digest ^= c[i]; st.digest *= 1099511628211ULL; } }
  Val newInput(State& st, const std::string& base, unsigned w, Frame& fr, bool& concreteOut) {
    std::string nm = base + "#" + std::to_string(st.inputs.size());
    if (OPT.concrete) { if (st.concIdx >= OPT.concInputs.size()) throw Unsupported{"concrete input list exhausted at " + nm}; auto& ci = OPT.concInputs[st.concIdx++];
      if (ci.first != nm) throw Unsupported{"concrete input desync: expected " + nm + " got " + ci.first};
      st.inputs.push_back({nm, bvc(ci.second, w), w}); concreteOut = true; return Val::conc(w, w == 64 ? ci.second : (ci.second & ((1ULL << w) - 1))); }
    z3::expr v = Z->bv_const(nm.c_str(), w); st.inputs.push_back({nm, v, w}); concreteOut = false; return Val::symb(v);
  }
  Val unaryFP(const std::string& what, const Val& a, double (*f)(double)) {
    bool dbl = a.w == 64;
    if (!a.sym) return Val::conc(a.w, dToBits(dbl ? f(bitsToD(a.u(), true)) : (double)(float)f((double)bitsToD(a.u(), false)), dbl));
    if (a.fs) { FSet R; for (auto& x : *a.fs) R.push_back({x.first, dToBits(dbl ? f(bitsToD(x.second, true)) : (double)(float)f((double)bitsToD(x.second, false)), dbl)}); return fromFS(a.w, R); }
    throw Unsupported{"symbolic (non-grid) argument to " + what};
  }
  static double f_floor(double x) { return std::floor(x); } static double f_ceil(double x) { return std::ceil(x); } static double f_sqrt(double x) { return std::sqrt(x); } static double f_fabs(double x) { return std::fabs(x); }
  static double f_trunc(double x) { return std::trunc(x); } static double f_round(double x) { return std::round(x); } static double f_rint(double x) { return std::nearbyint(x); }
  static double f_exp(double x) { return std::exp(x); } static double f_log(double x) { return std::log(x); } static double f_atan(double x) { return std::atan(x); }

  bool handleExternal(State& st, CallBase* cb, Function* F, std::vector<Val>& args, std::vector<State>& out) {
    StringRef n = F->getName(); Frame& fr = st.stack.back();
    auto setRet = [&](Val v) { fr.regs[slot[cb]] = std::move(v); };
    auto U = [&](unsigned i) { return concPtr(st, args[i]); };
    auto retZero = [&]() { if (!cb->getType()->isVoidTy()) setRet(zeroOf(cb->getType())); };
    // ---- harness API
    if (n == "vp_int") { std::string nm = readStr(st, U(0)); int lo = (int)args[1].c.getSExtValue(), hi = (int)args[2].c.getSExtValue(); bool cc; Val v = newInput(st, nm, 32, fr, cc);
      if (cc) { int x = (int)v.c.getSExtValue(); if (x < lo || x > hi) { ST.assumeEnds++; throw PathEnd{}; } } else st.pc.push_back(*v.e >= bvc((uint32_t)lo, 32) && *v.e <= bvc((uint32_t)hi, 32));
      setRet(v); return true; }
    if (n == "vp_u32" || n == "vp_u64" || n == "vp_double" || n == "vp_float") { std::string nm = readStr(st, U(0)); bool cc; setRet(newInput(st, nm, (n == "vp_u32" || n == "vp_float") ? 32 : 64, fr, cc)); return true; }
    if (n == "vp_double_grid") { std::string nm = readStr(st, U(0)); double lo = bitsToD(args[1].u(), true), step = bitsToD(args[2].u(), true); int cnt = (int)args[3].u(); bool cc; Val v = newInput(st, nm, 32, fr, cc);
      if (cc) { if (v.u() >= (uint64_t)cnt) { ST.assumeEnds++; throw PathEnd{}; } setRet(Val::conc(64, dToBits(lo + (double)(int)v.u() * step, true))); return true; }
      st.pc.push_back(z3::ult(*v.e, bvc(cnt, 32))); FSet R; for (int i = 0; i < cnt; i++) R.push_back({*v.e == bvc(i, 32), dToBits(lo + (double)i * step, true)}); setRet(fromFS(64, R)); return true; }
    if (n == "vp_assume") { Val c = args[0]; if (!c.sym) { if (c.c.isZero()) { ST.assumeEnds++; throw PathEnd{}; } return true; }
      z3::expr cond = bv2b(*c.e); if (!feasible(st, cond)) { ST.assumeEnds++; throw PathEnd{}; } st.pc.push_back(cond); return true; }
    if (n == "vp_assert") { ST.asserts++; std::string msg = readStr(st, U(1)); Val c = args[0];
      if (!c.sym) { if (OPT.concrete) { digestBytes(st, msg.data(), msg.size()); unsigned char b = !c.c.isZero(); digestBytes(st, &b, 1); }
        if (c.c.isZero()) violation(st, "assert", msg, nullptr); else ST.proved++; return true; }
      st.nsymAsserts++; z3::expr bad = *c.e == bvc(0, 1);
      if (feasible(st, bad)) { violation(st, "assert", msg, &bad); st.pc.push_back(!bad); st.wit.reset(); if (!feasible(st, Z->bool_val(true))) throw PathEnd{}; } else ST.proved++;
      return true; }
    if (n == "vp_reach") { ST.reached.insert(readStr(st, U(0))); return true; }
    if (n == "vp_observe") { if (OPT.concrete) { if (args[0].sym) throw Unsupported{"symbolic observe in concrete mode"}; uint64_t v = args[0].u(); digestBytes(st, &v, 8); } return true; }
    if (n == "vp_fork_int") { if (!args[0].sym) { setRet(args[0]); return true; } uint64_t v = concPtr(st, args[0]); setRet(Val::conc(args[0].w, v)); return true; }
    if (n == "vp_is_symbolic") { setRet(Val::conc(32, OPT.concrete ? 0 : 1)); return true; }
    // ---- allocation
    if (n == "_Znwm" || n == "_Znam" || n == "malloc" || n == "_ZnwmRKSt9nothrow_t" || n == "_ZnamRKSt9nothrow_t" || n == "_ZnwmSt11align_val_t" || n == "_ZnamSt11align_val_t") { uint64_t sz = U(0); auto o = alloc(st, sz, "heap", true); setRet(Val::conc(64, o->base)); return true; }
    if (n == "calloc") { uint64_t sz = U(0) * U(1); auto o = alloc(st, sz, "heap", true); setRet(Val::conc(64, o->base)); return true; }
    if (n == "aligned_alloc") { uint64_t sz = U(1); auto o = alloc(st, sz, "heap", true); setRet(Val::conc(64, o->base)); return true; }
    if (n == "posix_memalign") { uint64_t pp = U(0), sz = U(2); auto o = alloc(st, sz, "heap", true); store(st, pp, Val::conc(64, o->base)); setRet(Val::conc(32, 0)); return true; }
    if (n == "realloc") { uint64_t p = U(0), sz = U(1); auto o = alloc(st, sz, "heap", true); if (p) { auto it = st.mem.find(p); if (it == st.mem.end() || it->second->freed) memError(st, "realloc of invalid pointer", p); ObjP old = it->second; uint64_t k = std::min(sz, old->size); for (uint64_t i = 0; i < k; i++) store(st, o->base + i, load(st, p + i, 8)); it->second = std::make_shared<Object>(*old); it->second->freed = true; } setRet(Val::conc(64, o->base)); return true; }
    if (n == "_ZdlPv" || n == "_ZdaPv" || n == "free" || n == "_ZdlPvm" || n == "_ZdaPvm" || n == "_ZdlPvSt11align_val_t" || n == "_ZdlPvmSt11align_val_t" || n == "_ZdaPvSt11align_val_t") { uint64_t p = U(0); if (p) { auto it = st.mem.find(p); if (it == st.mem.end() || it->second->freed || !it->second->isHeap) memError(st, it != st.mem.end() && it->second->freed ? "double free" : "invalid free", p); it->second = std::make_shared<Object>(*it->second); it->second->freed = true; it->second->c.clear(); it->second->c.shrink_to_fit(); it->second->s.reset(); } return true; }
    // ---- memory intrinsics
    if (n.startswith("llvm.memcpy") || n.startswith("llvm.memmove") || n == "memcpy" || n == "memmove") { uint64_t d = U(0), s = U(1), k = U(2); if (!n.startswith("llvm.")) setRet(Val::conc(64, d)); if (k == 0) return true; ObjP so = find(st, s, k, false); if (!so) memError(st, "invalid read of " + std::to_string(k) + " bytes (memcpy source)", s);
      uint64_t soff = s - so->base; std::vector<uint8_t> tc(so->c.begin() + soff, so->c.begin() + soff + k); std::vector<SymB> ts; bool hs = (bool)so->s; if (hs) ts.assign(so->s->begin() + soff, so->s->begin() + soff + k);
      ObjP dobj = find(st, d, k, true); if (!dobj) memError(st, "invalid write of " + std::to_string(k) + " bytes (memcpy destination)", d); if (dobj->ro) memError(st, "memcpy to constant", d); uint64_t doff = d - dobj->base;
      memcpy(&dobj->c[doff], tc.data(), k); if (hs) { dobj->needS(); for (uint64_t i = 0; i < k; i++) (*dobj->s)[doff + i] = ts[i]; } else if (dobj->s) for (uint64_t i = 0; i < k; i++) (*dobj->s)[doff + i] = SymB(); return true; }
    if (n.startswith("llvm.memset") || n == "memset") { uint64_t d = U(0), k = U(2); Val b = args[1]; if (b.w > 8) b = castv(Instruction::Trunc, b, nullptr, Type::getInt8Ty(M.getContext())); if (!n.startswith("llvm.")) setRet(Val::conc(64, d)); if (!k) return true;
      if (!b.sym) { ObjP o = find(st, d, k, true); if (!o) memError(st, "invalid write of " + std::to_string(k) + " bytes (memset)", d); if (o->ro) memError(st, "memset of constant", d); memset(&o->c[d - o->base], (int)b.u(), k); if (o->s) for (uint64_t i = 0; i < k; i++) (*o->s)[d - o->base + i] = SymB(); return true; }
      for (uint64_t i = 0; i < k; i++) store(st, d + i, b); return true; }
    if (n == "bcmp" || n == "memcmp") { uint64_t a = U(0), b = U(1), k = U(2); bool anysym = false; std::vector<Val> xs, ys; for (uint64_t i = 0; i < k; i++) { xs.push_back(load(st, a + i, 8)); ys.push_back(load(st, b + i, 8)); anysym |= xs.back().sym || ys.back().sym; }
      if (!anysym) { int rr = 0; for (uint64_t i = 0; i < k && !rr; i++) rr = (int)xs[i].u() - (int)ys[i].u(); setRet(Val::conc(32, (uint32_t)rr)); return true; }
      z3::expr r = bvc(0, 32); for (int64_t i = (int64_t)k - 1; i >= 0; i--) { z3::expr x = toExpr(xs[i]), y = toExpr(ys[i]); r = z3::ite(x == y, r, z3::ite(z3::ult(x, y), bvc((uint32_t)-1, 32), bvc(1, 32))); } setRet(fromExpr(r)); return true; }
    if (n == "memchr") { uint64_t a = U(0), k = U(2); uint64_t r = 0; for (uint64_t i = 0; i < k; i++) { Val x = load(st, a + i, 8); if (x.sym || args[1].sym) throw Unsupported{"sym memchr"}; if (x.u() == (args[1].u() & 0xff)) { r = a + i; break; } } setRet(Val::conc(64, r)); return true; }
    if (n == "strlen") { uint64_t a = U(0), k = 0; while (true) { Val x = load(st, a + k, 8); if (x.sym) throw Unsupported{"sym strlen"}; if (x.c.isZero()) break; k++; } setRet(Val::conc(64, k)); return true; }
    if (n == "strcmp") { uint64_t a = U(0), b = U(1); int r = 0; while (true) { Val x = load(st, a++, 8), y = load(st, b++, 8); if (x.sym || y.sym) throw Unsupported{"sym strcmp"}; r = (int)x.u() - (int)y.u(); if (r || x.c.isZero()) break; } setRet(Val::conc(32, (uint32_t)r)); return true; }
    // ---- no-ops
    if (n.startswith("llvm.prefetch") || n.startswith("llvm.lifetime") || n.startswith("llvm.assume") || n.startswith("llvm.experimental.noalias") || n.startswith("llvm.dbg") || n == "__cxa_atexit" || n == "__cxa_thread_atexit" || n.startswith("_ZNSt8ios_base4Init") || n.startswith("llvm.invariant") || n == "_ZNSt9exceptionD2Ev" || n.startswith("llvm.stackrestore") || n.startswith("llvm.donothing") || n == "__cxa_free_exception" || n == "__cxa_end_catch" || n.startswith("llvm.var.annotation")) { retZero(); return true; }
    if (n.startswith("llvm.stacksave")) { setRet(Val::conc(64, 0)); return true; }
    if (n.startswith("llvm.expect")) { setRet(args[0]); return true; }
    if (n.startswith("llvm.is.constant")) { setRet(Val::conc(1, 0)); return true; }
    if (n.startswith("llvm.objectsize")) { setRet(Val::concAP(APInt::getAllOnes(DL.getTypeSizeInBits(cb->getType())))); return true; }
    // ---- traps / aborts
    if (n.startswith("llvm.trap") || n.startswith("llvm.ubsantrap")) { violation(st, "ub", n.startswith("llvm.ubsantrap") ? "undefined-behaviour trap (ubsan)" : "llvm.trap", nullptr); throw PathEnd{}; }
    if (n == "__assert_fail") { std::string e = readStr(st, U(0)); violation(st, "library-assert", e, nullptr); throw PathEnd{}; }
    if (n == "abort" || n == "_ZSt9terminatev" || n == "__cxa_pure_virtual" || n == "exit" || n == "_exit") { violation(st, "abort", n.str(), nullptr); throw PathEnd{}; }
    // ---- exceptions
    if (n.startswith("llvm.eh.typeid.for")) { Value* c = cb->getArgOperand(0)->stripPointerCasts(); setRet(Val::conc(32, typeId(cast<GlobalValue>(c)->getName().str()))); return true; }
    if (n == "__cxa_allocate_exception") { auto o = alloc(st, U(0), "exception", true); setRet(Val::conc(64, o->base)); return true; }
    if (n == "__cxa_throw") { st.excObj = U(0); st.excType = typeNameAt(U(1)); throwNow = true; return true; }
    if (n == "__cxa_rethrow") { throwNow = true; return true; }
    if (n == "__cxa_begin_catch" || n == "__cxa_get_exception_ptr") { setRet(args[0]); return true; }
    if (n == "__cxa_guard_acquire") { uint64_t g = U(0); Val b = load(st, g, 8); setRet(Val::conc(32, b.u() ? 0 : 1)); return true; }
    if (n == "__cxa_guard_release") { store(st, U(0), Val::conc(8, 1)); return true; }
    if (n == "__cxa_guard_abort") return true;
    if (n.startswith("_ZSt") && n.contains("__throw_")) { st.excObj = 0;
      st.excType = n.contains("length_error") ? "_ZTISt12length_error" : n.contains("out_of_range") ? "_ZTISt12out_of_range" : n.contains("bad_alloc") ? "_ZTISt9bad_alloc" : n.contains("bad_array_new_length") ? "_ZTISt20bad_array_new_length" : n.contains("invalid_argument") ? "_ZTISt16invalid_argument" : n.contains("logic_error") ? "_ZTISt11logic_error" : n.contains("bad_function_call") ? "_ZTISt17bad_function_call" : n.contains("runtime_error") ? "_ZTISt13runtime_error" : n.contains("domain_error") ? "_ZTISt12domain_error" : n.contains("overflow_error") ? "_ZTISt14overflow_error" : n.contains("bad_cast") ? "_ZTISt8bad_cast" : n.contains("bad_variant") ? "_ZTISt18bad_variant_access" : n.contains("bad_optional") ? "_ZTISt19bad_optional_access" : "_ZTISt9exception";
      throwNow = true; return true; }
    if (n.contains("4whatEv")) { auto o = alloc(st, 8, "what", false); setRet(Val::conc(64, o->base)); return true; }
    if (n.startswith("_ZNSt") && (n.contains("errorC") || n.contains("errorD") || n.contains("exceptionD") || n.contains("argumentC") || n.contains("argumentD") || n.contains("rangeC") || n.contains("rangeD") || n.contains("bad_allocD") || n.contains("bad_castD"))) { retZero(); return true; }
    // ---- random device (C19): the only use is to pick a starting index
    if (n.startswith("_ZNSt13random_device7_M_init") || n.startswith("_ZNSt13random_device7_M_fini")) return true;
    if (n.startswith("_ZNSt13random_device9_M_getval")) { setRet(Val::conc(32, OPT.randomDevice.empty() ? 0 : (uint32_t)atol(OPT.randomDevice.c_str()))); return true; }
    // ---- FP intrinsics / libm on concrete or grid values
    { struct { const char* a; const char* b; const char* c; double (*f)(double); } um[] = { {"llvm.floor", "floor", "floorf", f_floor}, {"llvm.ceil", "ceil", "ceilf", f_ceil}, {"llvm.sqrt", "sqrt", "sqrtf", f_sqrt}, {"llvm.trunc", "trunc", "truncf", f_trunc}, {"llvm.round", "round", "roundf", f_round}, {"llvm.rint", "rint", "rintf", f_rint}, {"llvm.nearbyint", "nearbyint", "nearbyintf", f_rint}, {"llvm.exp.", "exp", "expf", f_exp}, {"llvm.log.", "log", "logf", f_log}, {"\1", "atan", "atanf", f_atan} };
      for (auto& u : um) if (n.startswith(u.a) || n == u.b || n == u.c) { setRet(unaryFP(n.str(), args[0], u.f)); return true; } }
    if (n.startswith("llvm.fabs") || n == "fabs" || n == "fabsf") { unsigned w = args[0].w; setRet(binop(Instruction::And, args[0], Val::concAP(APInt::getSignedMaxValue(w)), Type::getIntNTy(M.getContext(), w))); return true; }
    if (n.startswith("llvm.fmuladd")) { Type* t = cb->getType(); setRet(fpbin(Instruction::FAdd, fpbin(Instruction::FMul, args[0], args[1], t), args[2], t)); return true; }
    if (n.startswith("llvm.pow.") || n == "pow") { bool dbl = args[0].w == 64; if (!fsLike(args[0]) || !fsLike(args[1])) throw Unsupported{"symbolic pow"}; FSet R; for (auto& x : fsOf(args[0])) for (auto& y : fsOf(args[1])) R.push_back({x.first && y.first, dToBits(std::pow(bitsToD(x.second, dbl), bitsToD(y.second, dbl)), dbl)}); setRet(fromFS(args[0].w, R)); return true; }
    if (n.startswith("llvm.minnum") || n.startswith("llvm.maxnum") || n == "fmin" || n == "fmax") { bool mx = n.contains("max"); Type* t = cb->getType(); Val c = fcmp(mx ? CmpInst::FCMP_OGT : CmpInst::FCMP_OLT, args[0], args[1], t);
      if (!c.sym) { setRet(c.c.isZero() ? args[1] : args[0]); return true; } setRet(fromExpr(z3::ite(bv2b(*c.e), toExpr(args[0]), toExpr(args[1])))); return true; }
    if (n.startswith("llvm.copysign")) { unsigned w = args[0].w; Type* it = Type::getIntNTy(M.getContext(), w); setRet(binop(Instruction::Or, binop(Instruction::And, args[0], Val::concAP(APInt::getSignedMaxValue(w)), it), binop(Instruction::And, args[1], Val::concAP(APInt::getSignMask(w)), it), it)); return true; }
    // ---- integer intrinsics
    if (n.startswith("llvm.abs")) { if (args[0].sym) { z3::expr x = *args[0].e; setRet(fromExpr(z3::ite(x < bvc(0, args[0].w), -x, x))); } else setRet(Val::concAP(args[0].c.abs())); return true; }
    if (n.startswith("llvm.fshl") || n.startswith("llvm.fshr")) { unsigned w = args[0].w; z3::expr a = toExpr(args[0]), b = toExpr(args[1]), s = z3::urem(toExpr(args[2]), bvc(w, w)); z3::expr cat = z3::concat(a, b);
      z3::expr r = n.startswith("llvm.fshl") ? z3::shl(cat, z3::zext(s, w)).extract(2 * w - 1, w) : z3::lshr(cat, z3::zext(s, w)).extract(w - 1, 0); setRet(fromExpr(r)); return true; }
    if (n.startswith("llvm.bswap")) { unsigned w = args[0].w; z3::expr x = toExpr(args[0]); z3::expr r = x.extract(7, 0); for (unsigned i = 1; i < w / 8; i++) r = z3::concat(r, x.extract(8 * i + 7, 8 * i)); setRet(fromExpr(r)); return true; }
    if (n.startswith("llvm.umax") || n.startswith("llvm.umin") || n.startswith("llvm.smax") || n.startswith("llvm.smin")) { CmpInst::Predicate p = n.startswith("llvm.umax") ? CmpInst::ICMP_UGT : n.startswith("llvm.umin") ? CmpInst::ICMP_ULT : n.startswith("llvm.smax") ? CmpInst::ICMP_SGT : CmpInst::ICMP_SLT;
      Val c = icmp(p, args[0], args[1]); if (!c.sym) setRet(c.c.isZero() ? args[1] : args[0]); else setRet(fromExpr(z3::ite(bv2b(*c.e), toExpr(args[0]), toExpr(args[1])))); return true; }
    if (n.startswith("llvm.ctpop")) { if (!args[0].sym) { setRet(Val::conc(args[0].w, args[0].c.countPopulation())); return true; } unsigned w = args[0].w; z3::expr x = *args[0].e; z3::expr r = bvc(0, w); for (unsigned i = 0; i < w; i++) r = r + z3::zext(x.extract(i, i), w - 1); setRet(fromExpr(r)); return true; }
    if (n.startswith("llvm.ctlz")) { unsigned w = args[0].w; if (args[0].sym) { z3::expr x = *args[0].e; z3::expr r = bvc(w, w); for (unsigned i = 0; i < w; i++) r = z3::ite(x.extract(i, i) == bvc(1, 1), bvc(w - 1 - i, w), r); setRet(fromExpr(r)); return true; } setRet(Val::conc(w, args[0].c.countLeadingZeros())); return true; }
    if (n.startswith("llvm.cttz")) { unsigned w = args[0].w; if (args[0].sym) { z3::expr x = *args[0].e; z3::expr r = bvc(w, w); for (int i = (int)w - 1; i >= 0; i--) r = z3::ite(x.extract(i, i) == bvc(1, 1), bvc(i, w), r); setRet(fromExpr(r)); return true; } setRet(Val::conc(w, args[0].c.countTrailingZeros())); return true; }
    if (n.contains(".with.overflow")) { bool sg = n.startswith("llvm.s"); char opc = n[6]; unsigned w = args[0].w; z3::expr a = toExpr(args[0]), b = toExpr(args[1]);
      z3::expr A = sg ? z3::sext(a, w) : z3::zext(a, w), B = sg ? z3::sext(b, w) : z3::zext(b, w); z3::expr R = opc == 'a' ? A + B : opc == 's' ? A - B : A * B; z3::expr lo = R.extract(w - 1, 0);
      z3::expr ok = sg ? (z3::sext(lo, w) == R) : (z3::zext(lo, w) == R); Val v; v.isAgg = true; v.agg.push_back(fromExpr(lo)); v.agg.push_back(fromExpr(b2bv(!ok))); setRet(v); return true; }
    if (n.startswith("llvm.uadd.sat") || n.startswith("llvm.usub.sat")) { unsigned w = args[0].w; z3::expr a = toExpr(args[0]), b = toExpr(args[1]); if (n.startswith("llvm.uadd")) { z3::expr s = a + b; setRet(fromExpr(z3::ite(z3::ult(s, a), bvc(~0ULL, w), s))); } else setRet(fromExpr(z3::ite(z3::ult(a, b), bvc(0, w), a - b))); return true; }
    return false;
  }
