// vpsx — values, memory objects, statistics (part of the forking symbolic executor for LLVM-14 IR)
#pragma once
#include <llvm/IR/LLVMContext.h>
#include <llvm/IR/Module.h>
#include <llvm/IR/Constants.h>
#include <llvm/IR/DataLayout.h>
#include <llvm/IR/Instructions.h>
#include <llvm/IR/IntrinsicInst.h>
#include <llvm/IR/GetElementPtrTypeIterator.h>
#include <llvm/IR/Operator.h>
#include <llvm/IRReader/IRReader.h>
#include <llvm/Support/SourceMgr.h>
#include <llvm/Support/raw_ostream.h>
#include <llvm/ADT/DenseMap.h>
#include <llvm/ADT/DenseSet.h>
#include <z3++.h>
#include <map>
#include <set>
#include <memory>
#include <vector>
#include <string>
#include <chrono>
#include <iostream>
#include <fstream>
#include <sstream>
#include <cstring>
#include <cmath>
#include <deque>
#include <unistd.h>
#include <sys/wait.h>
using namespace llvm;

static z3::context* Z;
struct Unsupported { std::string what; };   // -> INCONCLUSIVE (never success)
struct PathEnd { };                          // terminates the current path

using FSet = std::vector<std::pair<z3::expr, uint64_t>>;   // guarded set of concrete bit patterns (grid floats/doubles)

struct Val {
  unsigned w = 0;                 // bit width (pointers are 64)
  bool sym = false;
  bool isAgg = false;
  APInt c;                        // concrete value
  std::shared_ptr<z3::expr> e;    // symbolic bit-vector of width w
  std::vector<Val> agg;           // aggregate members
  std::shared_ptr<FSet> fs;       // when set: e == ite-chain over fs (finite-grid FP value)
  static Val conc(unsigned w, uint64_t v) { Val r; r.w = w; r.c = APInt(w, v); return r; }
  static Val concAP(const APInt& a) { Val r; r.w = a.getBitWidth(); r.c = a; return r; }
  static Val symb(const z3::expr& x) { Val r; r.w = x.get_sort().bv_size(); r.sym = true; r.e = std::make_shared<z3::expr>(x); return r; }
  uint64_t u() const { return c.getZExtValue(); }
};
static inline z3::expr bvc(uint64_t v, unsigned w) { return Z->bv_val((uint64_t)v, w); }
static z3::expr toExpr(const Val& v) {
  if (v.sym) return *v.e;
  if (v.w <= 64) return Z->bv_val((uint64_t)v.c.getZExtValue(), v.w);
  SmallString<64> s; v.c.toStringUnsigned(s, 10); return Z->bv_val(s.c_str(), v.w);
}
static Val fromExpr(z3::expr x) {
  x = x.simplify();
  if (x.is_numeral()) {
    unsigned w = x.get_sort().bv_size();
    if (w <= 64) return Val::conc(w, x.get_numeral_uint64());
    return Val::concAP(APInt(w, x.get_decimal_string(0), 10));
  }
  return Val::symb(x);
}
static z3::expr b2bv(const z3::expr& b) { return z3::ite(b, bvc(1, 1), bvc(0, 1)); }
static z3::expr bv2b(const z3::expr& v) { return v == bvc(1, 1); }

static Val fromFS(unsigned w, const FSet& items) {
  FSet m;
  for (auto& it : items) { bool f = false; for (auto& x : m) if (x.second == it.second) { x.first = (x.first || it.first); f = true; break; } if (!f) m.push_back(it); }
  FSet m2; for (auto& x : m) { z3::expr g = x.first.simplify(); if (!g.is_false()) m2.push_back({g, x.second}); }
  if (m2.empty()) throw PathEnd{};
  if (m2.size() == 1) return Val::conc(w, m2[0].second);
  z3::expr e = bvc(m2.back().second, w);
  for (int i = (int)m2.size() - 2; i >= 0; i--) e = z3::ite(m2[i].first, bvc(m2[i].second, w), e);
  Val r = Val::symb(e); r.fs = std::make_shared<FSet>(m2); return r;
}
static FSet fsOf(const Val& v) { if (v.fs) return *v.fs; return {{Z->bool_val(true), (uint64_t)v.c.getZExtValue()}}; }
static bool fsLike(const Val& v) { return !v.sym || v.fs; }

// ---------------------------------------------------------------- memory
struct SymB { std::shared_ptr<z3::expr> e; std::shared_ptr<Val> tag; uint8_t tagIdx = 0; bool sym() const { return (bool)e; } };
struct Object {
  uint64_t base = 0, size = 0; bool freed = false, ro = false, isHeap = false; const char* kind = "";
  std::vector<uint8_t> c;                       // concrete bytes
  std::unique_ptr<std::vector<SymB>> s;         // allocated only when some byte is symbolic / tagged
  Object() {}
  Object(const Object& o) : base(o.base), size(o.size), freed(o.freed), ro(o.ro), isHeap(o.isHeap), kind(o.kind), c(o.c) { if (o.s) s = std::make_unique<std::vector<SymB>>(*o.s); }
  void needS() { if (!s) s = std::make_unique<std::vector<SymB>>(size); }
};
using ObjP = std::shared_ptr<Object>;

struct Frame {
  Function* fn = nullptr; BasicBlock* bb = nullptr; BasicBlock* prev = nullptr; BasicBlock::iterator it;
  std::vector<Val> regs; std::vector<uint64_t> allocas; Instruction* callsite = nullptr;
};
struct SymInput { std::string name; z3::expr e; unsigned w; };
struct State {
  std::vector<Frame> stack; std::map<uint64_t, ObjP> mem; std::vector<z3::expr> pc; uint64_t nextAddr = 0x100000;
  std::vector<SymInput> inputs; uint64_t steps = 0; std::shared_ptr<z3::model> wit; size_t witLen = 0;
  uint64_t excObj = 0; std::string excType; size_t concIdx = 0;
  unsigned nforks = 0, nsymAsserts = 0; uint64_t digest = 1469598103934665603ULL; bool hadViolation = false;
};

struct Violation { std::string kind, label, fn; std::vector<std::pair<std::string, uint64_t>> inputs; };
struct Stats {
  uint64_t cacheHits = 0, paths = 0, instr = 0, queries = 0, forks = 0, asserts = 0, proved = 0, nontrivial = 0, assumeEnds = 0;
  double solverSec = 0; std::set<std::string> reached; std::vector<Violation> violations;
  std::vector<std::vector<std::pair<std::string, uint64_t>>> samples; std::vector<uint64_t> sampleDigests; std::string inconclusive;
  std::map<std::string, uint64_t> violCount;
};
static Stats ST;
