// Native runtime for harnesses: replays a solver model (or a sample path) against the real compiled code.
// Input file: lines "name#k value". Output: VP-NATIVE-* lines on stdout; exit 0 ok, 1 assert failed, 77 assume failed, 4 desync.
#include <cstdio>
#include <cstdlib>
#include <cstring>
#include <string>
#include <vector>
#include <stdint.h>
#include <random>
#include <unistd.h>
#include <sys/wait.h>
// std::random_device is an environment input: both the engine (--random-device) and this runtime return the value of VP_RANDOM_DEVICE
namespace std { void random_device::_M_init(const std::string&) {} void random_device::_M_fini() {} random_device::result_type random_device::_M_getval() { const char* e = getenv("VP_RANDOM_DEVICE"); return e ? (result_type)strtoul(e, 0, 10) : 0; } }
extern "C" void harness();
static std::vector<std::pair<std::string, uint64_t>> g_in; static size_t g_idx = 0; static uint64_t g_digest = 1469598103934665603ULL; static int g_asserts = 0, g_failed = 0;
static void dig(const void* p, size_t n) { const unsigned char* c = (const unsigned char*)p; for (size_t i = 0; i < n; i++) { g_digest ^= c[i]; g_digest *= 1099511628211ULL; } }
// bound-sizing aid (never used by ./check): VP_NATIVE_RANDOM=<seed> draws every input at random inside its declared range instead of reading a file
static bool g_rand = false; static std::mt19937_64 g_rng;
static uint64_t next(const char* name) {
  if (g_rand) { g_idx++; return g_rng(); }
  std::string want = std::string(name) + "#" + std::to_string(g_idx);
  if (g_idx >= g_in.size()) { printf("VP-NATIVE-DESYNC input list exhausted at %s\n", want.c_str()); fflush(stdout); exit(4); }
  if (g_in[g_idx].first != want) { printf("VP-NATIVE-DESYNC expected %s got %s\n", want.c_str(), g_in[g_idx].first.c_str()); fflush(stdout); exit(4); }
  return g_in[g_idx++].second;
}
extern "C" {
int vp_int(const char* name, int lo, int hi) { int v = (int)(uint32_t)next(name); if (g_rand) v = lo + (int)((uint32_t)v % (uint32_t)(hi - lo + 1)); if (v < lo || v > hi) { printf("VP-NATIVE-ASSUME-FAILED range %s\n", name); fflush(stdout); exit(77); } return v; }
unsigned vp_u32(const char* name) { return (unsigned)next(name); }
uint64_t vp_u64(const char* name) { return next(name); }
double vp_double(const char* name) { uint64_t u = next(name); double d; memcpy(&d, &u, 8); return d; }
float vp_float(const char* name) { uint32_t u = (uint32_t)next(name); float f; memcpy(&f, &u, 4); return f; }
double vp_double_grid(const char* name, double lo, double step, int count) { uint32_t i = (uint32_t)next(name); if (g_rand) i %= (uint32_t)count; if (i >= (uint32_t)count) { printf("VP-NATIVE-ASSUME-FAILED grid %s\n", name); fflush(stdout); exit(77); } return lo + (double)(int)i * step; }
void vp_assume(bool c) { if (!c) { printf("VP-NATIVE-ASSUME-FAILED\n"); fflush(stdout); exit(77); } }
void vp_assert(bool c, const char* label) { g_asserts++; dig(label, strlen(label)); unsigned char b = c; dig(&b, 1); if (!c) { g_failed++; printf("VP-NATIVE-ASSERT-FAILED %s\n", label); fflush(stdout); } }
void vp_reach(const char*) {}
void vp_observe(uint64_t v) { dig(&v, 8); }
int vp_is_symbolic(void) { return 0; }
int vp_fork_int(int v) { return v; }
}
int main(int argc, char** argv) {
  if (const char* r = getenv("VP_NATIVE_RANDOM")) {   // "<first seed>:<count>": one forked child per seed, tally printed at the end
    unsigned long long s0 = strtoull(r, 0, 10), cnt = 1; if (const char* c = strchr(r, ':')) cnt = strtoull(c + 1, 0, 10);
    unsigned long long ok = 0, failed = 0, crashed = 0, disc = 0; long long firstBad = -1;
    for (unsigned long long t = s0; t < s0 + cnt; t++) { fflush(stdout); pid_t pid = fork();
      if (pid == 0) { g_rand = true; g_rng.seed(t); if (!getenv("VP_NATIVE_VERBOSE")) { freopen("/dev/null", "w", stdout); freopen("/dev/null", "w", stderr); } harness(); fflush(stdout); _exit(g_failed ? 1 : 0); }
      int st = 0; waitpid(pid, &st, 0); int e = WIFEXITED(st) ? WEXITSTATUS(st) : 200;
      if (e == 0) ok++; else if (e == 77) disc++; else if (e == 1) { failed++; if (firstBad < 0) firstBad = (long long)t; } else { crashed++; if (firstBad < 0) firstBad = (long long)t; } }
    printf("ok=%llu failed=%llu crashed=%llu discarded(assume)=%llu first-bad-seed=%lld\n", ok, failed, crashed, disc, firstBad); return 0; }
  if (argc < 2) { fprintf(stderr, "usage: %s replay-file\n", argv[0]); return 2; }
  FILE* f = fopen(argv[1], "r"); if (!f) { perror("replay file"); return 2; }
  char nm[256]; unsigned long long v; while (fscanf(f, "%255s %llu", nm, &v) == 2) g_in.push_back({nm, (uint64_t)v}); fclose(f);
  harness();
  printf("VP-NATIVE-DIGEST %llu asserts=%d failed=%d\n", (unsigned long long)g_digest, g_asserts, g_failed); fflush(stdout);
  return g_failed ? 1 : 0;
}
