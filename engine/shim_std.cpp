// Models of the few libstdc++ out-of-line functions that header code calls (environment stubs; part of the trusted base).
typedef unsigned long size_t;
namespace std {
enum _Rb_tree_color { _S_red = false, _S_black = true };
struct _Rb_tree_node_base { _Rb_tree_color _M_color; _Rb_tree_node_base* _M_parent; _Rb_tree_node_base* _M_left; _Rb_tree_node_base* _M_right; };
typedef _Rb_tree_node_base* B;
static B inc(B x) { if (x->_M_right) { x = x->_M_right; while (x->_M_left) x = x->_M_left; } else { B y = x->_M_parent; while (x == y->_M_right) { x = y; y = y->_M_parent; } if (x->_M_right != y) x = y; } return x; }
static B dec(B x) { if (x->_M_color == _S_red && x->_M_parent->_M_parent == x) x = x->_M_right; else if (x->_M_left) { B y = x->_M_left; while (y->_M_right) y = y->_M_right; x = y; } else { B y = x->_M_parent; while (x == y->_M_left) { x = y; y = y->_M_parent; } x = y; } return x; }
_Rb_tree_node_base* _Rb_tree_increment(_Rb_tree_node_base* x) throw() { return inc(x); }
const _Rb_tree_node_base* _Rb_tree_increment(const _Rb_tree_node_base* x) throw() { return inc(const_cast<B>(x)); }
_Rb_tree_node_base* _Rb_tree_decrement(_Rb_tree_node_base* x) throw() { return dec(x); }
const _Rb_tree_node_base* _Rb_tree_decrement(const _Rb_tree_node_base* x) throw() { return dec(const_cast<B>(x)); }
static void rotl(B x, B& root) { B y = x->_M_right; x->_M_right = y->_M_left; if (y->_M_left) y->_M_left->_M_parent = x; y->_M_parent = x->_M_parent;
  if (x == root) root = y; else if (x == x->_M_parent->_M_left) x->_M_parent->_M_left = y; else x->_M_parent->_M_right = y; y->_M_left = x; x->_M_parent = y; }
static void rotr(B x, B& root) { B y = x->_M_left; x->_M_left = y->_M_right; if (y->_M_right) y->_M_right->_M_parent = x; y->_M_parent = x->_M_parent;
  if (x == root) root = y; else if (x == x->_M_parent->_M_right) x->_M_parent->_M_right = y; else x->_M_parent->_M_left = y; y->_M_right = x; x->_M_parent = y; }
void _Rb_tree_insert_and_rebalance(const bool insert_left, _Rb_tree_node_base* x, _Rb_tree_node_base* p, _Rb_tree_node_base& header) throw() {
  B& root = header._M_parent; x->_M_parent = p; x->_M_left = 0; x->_M_right = 0; x->_M_color = _S_red;
  if (insert_left) { p->_M_left = x; if (p == &header) { header._M_parent = x; header._M_right = x; } else if (p == header._M_left) header._M_left = x; }
  else { p->_M_right = x; if (p == header._M_right) header._M_right = x; }
  while (x != root && x->_M_parent->_M_color == _S_red) { B xpp = x->_M_parent->_M_parent;
    if (x->_M_parent == xpp->_M_left) { B y = xpp->_M_right;
      if (y && y->_M_color == _S_red) { x->_M_parent->_M_color = _S_black; y->_M_color = _S_black; xpp->_M_color = _S_red; x = xpp; }
      else { if (x == x->_M_parent->_M_right) { x = x->_M_parent; rotl(x, root); } x->_M_parent->_M_color = _S_black; xpp->_M_color = _S_red; rotr(xpp, root); } }
    else { B y = xpp->_M_left;
      if (y && y->_M_color == _S_red) { x->_M_parent->_M_color = _S_black; y->_M_color = _S_black; xpp->_M_color = _S_red; x = xpp; }
      else { if (x == x->_M_parent->_M_left) { x = x->_M_parent; rotr(x, root); } x->_M_parent->_M_color = _S_black; xpp->_M_color = _S_red; rotl(xpp, root); } } }
  root->_M_color = _S_black;
}
_Rb_tree_node_base* _Rb_tree_rebalance_for_erase(_Rb_tree_node_base* const z, _Rb_tree_node_base& header) throw() {
  B& root = header._M_parent; B& leftmost = header._M_left; B& rightmost = header._M_right; B y = z; B x = 0; B xp = 0;
  if (y->_M_left == 0) x = y->_M_right; else if (y->_M_right == 0) x = y->_M_left; else { y = y->_M_right; while (y->_M_left) y = y->_M_left; x = y->_M_right; }
  if (y != z) { z->_M_left->_M_parent = y; y->_M_left = z->_M_left;
    if (y != z->_M_right) { xp = y->_M_parent; if (x) x->_M_parent = y->_M_parent; y->_M_parent->_M_left = x; y->_M_right = z->_M_right; z->_M_right->_M_parent = y; } else xp = y;
    if (root == z) root = y; else if (z->_M_parent->_M_left == z) z->_M_parent->_M_left = y; else z->_M_parent->_M_right = y;
    y->_M_parent = z->_M_parent; _Rb_tree_color t = y->_M_color; y->_M_color = z->_M_color; z->_M_color = t; y = z; }
  else { xp = y->_M_parent; if (x) x->_M_parent = y->_M_parent;
    if (root == z) root = x; else if (z->_M_parent->_M_left == z) z->_M_parent->_M_left = x; else z->_M_parent->_M_right = x;
    if (leftmost == z) { if (z->_M_right == 0) leftmost = z->_M_parent; else { B m = x; while (m->_M_left) m = m->_M_left; leftmost = m; } }
    if (rightmost == z) { if (z->_M_left == 0) rightmost = z->_M_parent; else { B m = x; while (m->_M_right) m = m->_M_right; rightmost = m; } } }
  if (y->_M_color != _S_red) {
    while (x != root && (x == 0 || x->_M_color == _S_black)) {
      if (x == xp->_M_left) { B w = xp->_M_right;
        if (w->_M_color == _S_red) { w->_M_color = _S_black; xp->_M_color = _S_red; rotl(xp, root); w = xp->_M_right; }
        if ((w->_M_left == 0 || w->_M_left->_M_color == _S_black) && (w->_M_right == 0 || w->_M_right->_M_color == _S_black)) { w->_M_color = _S_red; x = xp; xp = xp->_M_parent; }
        else { if (w->_M_right == 0 || w->_M_right->_M_color == _S_black) { w->_M_left->_M_color = _S_black; w->_M_color = _S_red; rotr(w, root); w = xp->_M_right; }
          w->_M_color = xp->_M_color; xp->_M_color = _S_black; if (w->_M_right) w->_M_right->_M_color = _S_black; rotl(xp, root); break; } }
      else { B w = xp->_M_left;
        if (w->_M_color == _S_red) { w->_M_color = _S_black; xp->_M_color = _S_red; rotr(xp, root); w = xp->_M_left; }
        if ((w->_M_right == 0 || w->_M_right->_M_color == _S_black) && (w->_M_left == 0 || w->_M_left->_M_color == _S_black)) { w->_M_color = _S_red; x = xp; xp = xp->_M_parent; }
        else { if (w->_M_left == 0 || w->_M_left->_M_color == _S_black) { w->_M_right->_M_color = _S_black; w->_M_color = _S_red; rotl(w, root); w = xp->_M_left; }
          w->_M_color = xp->_M_color; xp->_M_color = _S_black; if (w->_M_left) w->_M_left->_M_color = _S_black; rotr(xp, root); break; } } }
    if (x) x->_M_color = _S_black; }
  return y;
}
namespace __detail {
struct _List_node_base { _List_node_base* _M_next; _List_node_base* _M_prev;
  void _M_hook(_List_node_base* const p) throw(); void _M_unhook() throw(); void _M_transfer(_List_node_base* const f, _List_node_base* const l) throw(); void _M_reverse() throw(); static void swap(_List_node_base& x, _List_node_base& y) throw(); };
void _List_node_base::swap(_List_node_base& x, _List_node_base& y) throw() {
  if (x._M_next != &x) { if (y._M_next != &y) { _List_node_base* t = x._M_next; x._M_next = y._M_next; y._M_next = t; t = x._M_prev; x._M_prev = y._M_prev; y._M_prev = t; x._M_next->_M_prev = x._M_prev->_M_next = &x; y._M_next->_M_prev = y._M_prev->_M_next = &y; }
    else { y._M_next = x._M_next; y._M_prev = x._M_prev; y._M_next->_M_prev = y._M_prev->_M_next = &y; x._M_next = x._M_prev = &x; } }
  else if (y._M_next != &y) { x._M_next = y._M_next; x._M_prev = y._M_prev; x._M_next->_M_prev = x._M_prev->_M_next = &x; y._M_next = y._M_prev = &y; } }
void _List_node_base::_M_reverse() throw() { _List_node_base* t = this; do { _List_node_base* n = t->_M_next; t->_M_next = t->_M_prev; t->_M_prev = n; t = t->_M_prev; } while (t != this); }
void _List_node_base::_M_hook(_List_node_base* const p) throw() { _M_next = p; _M_prev = p->_M_prev; p->_M_prev->_M_next = this; p->_M_prev = this; }
void _List_node_base::_M_unhook() throw() { _List_node_base* n = _M_next; _List_node_base* p = _M_prev; p->_M_next = n; n->_M_prev = p; }
void _List_node_base::_M_transfer(_List_node_base* const first, _List_node_base* const last) throw() { if (this != last) { last->_M_prev->_M_next = this; first->_M_prev->_M_next = last; _M_prev->_M_next = first; _List_node_base* const t = _M_prev; _M_prev = last->_M_prev; last->_M_prev = first->_M_prev; first->_M_prev = t; } }
struct VpPair { bool first; size_t second; };
struct _Prime_rehash_policy { float _M_max_load_factor; mutable size_t _M_next_resize;
  size_t _M_next_bkt(size_t n) const; VpPair _M_need_rehash(size_t n_bkt, size_t n_elt, size_t n_ins) const; };
static const size_t vp_primes[] = {2, 3, 5, 7, 11, 13, 17, 19, 23, 29, 31, 37, 41, 43, 47, 53, 59, 61, 67, 71, 73, 79, 83, 89, 97, 103, 109, 113, 127, 137, 139, 149, 157, 167, 179, 193, 199, 211, 227, 241, 257, 277, 293, 313, 337, 359, 383, 409, 439, 467, 503, 541, 577, 619, 661, 709, 761, 823, 887, 953, 1031, 2053, 4099, 8209, 16411, 32771, 65537, 131101, 262147, 524309, 1048583};
size_t _Prime_rehash_policy::_M_next_bkt(size_t n) const { size_t r = 1048583; for (unsigned i = 0; i < sizeof(vp_primes) / sizeof(vp_primes[0]); i++) if (vp_primes[i] >= n) { r = vp_primes[i]; break; }
  double nr = (double)r * (double)_M_max_load_factor; _M_next_resize = (size_t)nr; return r; }
VpPair _Prime_rehash_policy::_M_need_rehash(size_t n_bkt, size_t n_elt, size_t n_ins) const {
  if (n_elt + n_ins > _M_next_resize) { double min_bkts = (double)(n_elt + n_ins) / (double)_M_max_load_factor; size_t mb = (size_t)min_bkts + 1;
    if (mb > n_bkt || (double)mb >= (double)n_bkt) { size_t want = mb > n_bkt * 2 ? mb : n_bkt * 2; return VpPair{true, _M_next_bkt(want)}; }
    _M_next_resize = (size_t)((double)n_bkt * (double)_M_max_load_factor); return VpPair{false, 0}; }
  return VpPair{false, 0}; }
}  // __detail
size_t _Hash_bytes(const void* p, size_t len, size_t seed) { const unsigned char* c = (const unsigned char*)p; size_t h = seed ^ 1469598103934665603UL; for (size_t i = 0; i < len; i++) { h ^= c[i]; h *= 1099511628211UL; } return h; }
}  // std
