#ifndef VP_RT_H
#define VP_RT_H
#include <stdint.h>
#include <stddef.h>
#include <string.h>
#include <stdlib.h>
typedef unsigned __int128 vp_u128; typedef __int128 vp_i128;
#ifdef __CPROVER__
#define VP_UNDEF 0
#define VP_UNREACHABLE() __CPROVER_assert(0, "VP: reached llvm unreachable")
#define VP_TRAP(k) __CPROVER_assert(0, "VP: trap")
#define VP_ASSUME(c) __CPROVER_assume(c)
#else
#include <stdio.h>
#define VP_UNDEF 0
#define VP_UNREACHABLE() (fprintf(stderr,"VP: unreachable reached\n"), abort())
#define VP_TRAP(k) (fprintf(stderr,"VP: trap\n"), abort())
#define VP_ASSUME(c) do { if(!(c)) { fprintf(stderr,"VP: assume failed\n"); exit(77);} } while(0)
#endif
#ifdef __CPROVER__
#define VP_UNMODELLED(n) __CPROVER_assert(0, "VP-UNMODELLED external " n)
#else
#define VP_UNMODELLED(n) (fprintf(stderr,"VP: unmodelled external %s\n", n), abort())
#endif
#define VP_INF (__builtin_inf())
#define VP_NAN (__builtin_nan(""))
#define VP_BITCAST(FT, TT, v) (((union { FT f; TT t; }){ .f = (v) }).t)
/* ---- exceptions: a pending flag; calls that may throw are followed by a check in generated code */
static int vp_exc_pending; static void* vp_exc_obj; static void* vp_exc_type; static int vp_exc_count;
static inline uint8_t* __cxa_allocate_exception(uint64_t n) { uint8_t* p = malloc(n ? n : 1); VP_ASSUME(p != 0); return p; }
static inline void __cxa_free_exception(uint8_t* p) { free(p); }
static inline void __cxa_throw(uint8_t* o, uint8_t* t, uint8_t* d) { vp_exc_pending = 1; vp_exc_obj = o; vp_exc_type = t; vp_exc_count++; }
static inline void vp_raise_builtin(void) { vp_exc_pending = 1; vp_exc_obj = 0; vp_exc_type = 0; vp_exc_count++; }
static inline uint8_t* __cxa_begin_catch(uint8_t* o) { return o; }
static inline void __cxa_end_catch(void) { }
static inline void __cxa_rethrow(void) { vp_exc_pending = 1; }
static inline int32_t vp_exc_selector(int n, ...) { return 1; }
static inline void vp_exc_caught(void) { vp_exc_pending = 0; }
static inline void vp_exc_resume(uint8_t* o) { vp_exc_pending = 1; }
static inline int32_t vp_typeid_for(uint8_t* t) { return 1; }
static inline void _ZSt9terminatev(void) {
#ifdef __CPROVER__
  __CPROVER_assert(0, "VP: std::terminate"); __CPROVER_assume(0);
#else
  abort();
#endif
}
static inline void __clang_call_terminate(uint8_t* p) { _ZSt9terminatev(); }
/* ---- allocation */
static inline uint8_t* _Znwm(uint64_t n) { uint8_t* p = malloc(n ? n : 1); VP_ASSUME(p != 0); return p; }
static inline uint8_t* _Znam(uint64_t n) { uint8_t* p = malloc(n ? n : 1); VP_ASSUME(p != 0); return p; }
static inline void _ZdlPv(uint8_t* p) { free(p); }
static inline void _ZdaPv(uint8_t* p) { free(p); }
static inline void _ZdlPvm(uint8_t* p, uint64_t n) { free(p); }
/* ---- libstdc++ throw helpers */
static inline void _ZSt20__throw_length_errorPKc(uint8_t* s) { vp_raise_builtin(); }
static inline void _ZSt28__throw_bad_array_new_lengthv(void) { vp_raise_builtin(); }
static inline void _ZSt17__throw_bad_allocv(void) { vp_raise_builtin(); }
static inline void _ZSt24__throw_out_of_range_fmtPKcz(uint8_t* s, ...) { vp_raise_builtin(); }
static inline void _ZSt19__throw_logic_errorPKc(uint8_t* s) { vp_raise_builtin(); }
static inline void _ZSt20__throw_out_of_rangePKc(uint8_t* s) { vp_raise_builtin(); }
static inline void _ZSt25__throw_bad_function_callv(void) { vp_raise_builtin(); }
static inline void __assert_fail(uint8_t* a, uint8_t* b, uint32_t c, uint8_t* d) {
#ifdef __CPROVER__
  __CPROVER_assert(0, "VP: C assert() in library code failed"); __CPROVER_assume(0);
#else
  fprintf(stderr, "assert failed: %s\n", (char*)a); abort();
#endif
}
/* ---- intrinsics */
static inline uint64_t vp_ctlz_64(uint64_t x) { uint64_t n = 0; if (!x) return 64; while (!(x >> 63)) { x <<= 1; n++; } return n; }
static inline uint32_t vp_ctlz_32(uint32_t x) { uint32_t n = 0; if (!x) return 32; while (!(x >> 31)) { x <<= 1; n++; } return n; }
static inline uint64_t vp_cttz_64(uint64_t x) { uint64_t n = 0; if (!x) return 64; while (!(x & 1)) { x >>= 1; n++; } return n; }
static inline uint32_t vp_cttz_32(uint32_t x) { uint32_t n = 0; if (!x) return 32; while (!(x & 1)) { x >>= 1; n++; } return n; }
static inline uint64_t vp_umax_64(uint64_t a, uint64_t b) { return a > b ? a : b; }
static inline uint64_t vp_umin_64(uint64_t a, uint64_t b) { return a < b ? a : b; }
static inline uint32_t vp_umax_32(uint32_t a, uint32_t b) { return a > b ? a : b; }
static inline uint32_t vp_umin_32(uint32_t a, uint32_t b) { return a < b ? a : b; }
static inline uint64_t vp_smax_64(uint64_t a, uint64_t b) { return (int64_t)a > (int64_t)b ? a : b; }
static inline uint64_t vp_smin_64(uint64_t a, uint64_t b) { return (int64_t)a < (int64_t)b ? a : b; }
static inline uint32_t vp_smax_32(uint32_t a, uint32_t b) { return (int32_t)a > (int32_t)b ? a : b; }
static inline uint32_t vp_smin_32(uint32_t a, uint32_t b) { return (int32_t)a < (int32_t)b ? a : b; }
static inline uint64_t vp_umul_ovf_64(uint64_t a, uint64_t b, _Bool* o) { vp_u128 r = (vp_u128)a * b; *o = (r >> 64) != 0; return (uint64_t)r; }
static inline uint64_t vp_uadd_ovf_64(uint64_t a, uint64_t b, _Bool* o) { uint64_t r = a + b; *o = r < a; return r; }
static inline uint32_t vp_umul_ovf_32(uint32_t a, uint32_t b, _Bool* o) { uint64_t r = (uint64_t)a * b; *o = (r >> 32) != 0; return (uint32_t)r; }
static inline uint32_t vp_uadd_ovf_32(uint32_t a, uint32_t b, _Bool* o) { uint32_t r = a + b; *o = r < a; return r; }
static inline uint32_t vp_sadd_ovf_32(uint32_t a, uint32_t b, _Bool* o) { int64_t r = (int64_t)(int32_t)a + (int32_t)b; *o = r != (int32_t)r; return (uint32_t)r; }
static inline uint32_t vp_ssub_ovf_32(uint32_t a, uint32_t b, _Bool* o) { int64_t r = (int64_t)(int32_t)a - (int32_t)b; *o = r != (int32_t)r; return (uint32_t)r; }
static inline uint32_t vp_smul_ovf_32(uint32_t a, uint32_t b, _Bool* o) { int64_t r = (int64_t)(int32_t)a * (int32_t)b; *o = r != (int32_t)r; return (uint32_t)r; }
#endif
