# Per-property harness tables.  Each unit = one harness source + -D configuration = one IR module executed by vpsx.
ENV_MODELS = ['operator new/delete, malloc/free: fresh object, never fails', 'llvm.mem*/memcmp/strlen: executed on the byte memory model',
  'engine/shim_std.cpp: re-implementation of libstdc++ out-of-line _Rb_tree_*, _List_node_base hooks, _Prime_rehash_policy, _Hash_bytes',
  'exception class constructors/destructors/what(): no-ops; __cxa_throw/landingpad executed with type matching through base classes',
  'libm floor/ceil/sqrt/pow/exp/log on concrete or finite-grid values: host FPU', 'std::random_device: value from --random-device']
TRUSTED = ['clang-14 IR generation at -O1', 'libLLVM-14 IR reader and DataLayout', 'z3 4.8.12', 'engine/vpsx*.h interpreter (validated per run: native replay of every model, differential digests on sample paths)', 'engine/shim_std.cpp', 'the oracle code inside each harness']
COMMON_ASSUMPTIONS = ['allocation never fails', 'inputs larger than the stated bounds are outside the claim', 'sequential execution (no threads)']
PROPS = {}
EXTRA = {}

def U(name, src, defs=(), tiers=('quick', 'thorough'), **kw):
    d = dict(name=name, src=src, defs=list(defs), tiers=list(tiers)); d.update(kw); return d

# ------------------------------------------------------------------------------------------------ C14
PROPS['C14'] = dict(
  explanation='Bounded symbolic execution of the real compute_persistence_of_function_on_line and persistence_on_rectangle_from_top_cells (clang IR of the headers in /repo) with every cell value (and, for the line, the length) symbolic; z3 decides on every path that the emitted multiset of (dim,birth,death), the returned minimum and the index-mode output equal an independent merge-tree oracle. Complete inside the stated bounds; nothing outside them is claimed.',
  bounds=dict(quick='line: n<=5 int, n<=4 double and std::greater, values in 0..n; rectangle: 2x2, 2x3, 3x2 (values 0..3), value and index mode', thorough='line: n<=7; rectangle: + 3x3 (values 0..2), 2x4, 4x2'),
  outside=['grids larger than the bounds', 'NaN values'],
  assumptions=['values are totally ordered (no NaN)'],
  units=[
    U('line_int_n5', 'C14_line.cpp', ['VP_N=5'], weight=3),
    U('line_double_n4', 'C14_line.cpp', ['VP_N=4', 'VP_T=double'], weight=2),
    U('line_greater_n4', 'C14_line.cpp', ['VP_N=4', 'VP_GREATER'], weight=2),
    U('rect_2x2', 'C14_rect.cpp', ['VP_R=2', 'VP_C=2', 'VP_VMAX=4'], weight=1),
    U('rect_2x2_idx', 'C14_rect.cpp', ['VP_R=2', 'VP_C=2', 'VP_VMAX=4', 'VP_INDEX'], weight=1),
    U('rect_2x3', 'C14_rect.cpp', ['VP_R=2', 'VP_C=3', 'VP_VMAX=3'], weight=8),
    U('rect_3x2_idx', 'C14_rect.cpp', ['VP_R=3', 'VP_C=2', 'VP_VMAX=3', 'VP_INDEX'], weight=8),
    U('rect_3x3', 'C14_rect.cpp', ['VP_R=3', 'VP_C=3', 'VP_VMAX=2'], tiers=['thorough'], weight=20, jobs=8),
    U('rect_2x4', 'C14_rect.cpp', ['VP_R=2', 'VP_C=4', 'VP_VMAX=2'], tiers=['thorough'], weight=15, jobs=4),
    U('rect_4x2_idx', 'C14_rect.cpp', ['VP_R=4', 'VP_C=2', 'VP_VMAX=2', 'VP_INDEX'], tiers=['thorough'], weight=15, jobs=4),
    U('line_int_n7', 'C14_line.cpp', ['VP_N=7'], tiers=['thorough'], weight=9),
    U('line_double_n6', 'C14_line.cpp', ['VP_N=6', 'VP_T=double'], tiers=['thorough'], weight=6),
  ])

NOT_APPLICABLE = {}
NOTES = 'Clauses outside every claim: real thread schedules/TBB execution (engine is sequential), iostream text I/O, GMP arbitrary precision, Eigen-based Coxeter point location under general affine maps, SIMD paths of boost::unordered_flat_map (compiled with -U__SSE2__), allocation failure, inputs beyond the stated bounds.'
