# Per-property harness tables.  Each unit = one harness source + -D configuration = one IR module executed by vpsx.
ENV_MODELS = ['operator new/delete, malloc/free: fresh object, never fails', 'llvm.mem*/memcmp/strlen: executed on the byte memory model',
  'engine/shim_std.cpp: re-implementation of libstdc++ out-of-line _Rb_tree_*, _List_node_base hooks, _Prime_rehash_policy, _Hash_bytes',
  'exception class constructors/destructors/what(): no-ops; __cxa_throw/landingpad executed with type matching through base classes',
  'libm floor/ceil/sqrt/pow/exp/log on concrete or finite-grid values: host FPU', 'std::random_device: value from --random-device']
TRUSTED = ['clang-14 IR generation at -O1', 'libLLVM-14 IR reader and DataLayout', 'z3 4.8.12', 'engine/vpsx*.h interpreter (validated per run: native replay of every model, differential digests on sample paths)', 'engine/shim_std.cpp', 'the oracle code inside each harness']
COMMON_ASSUMPTIONS = ['allocation never fails', 'inputs larger than the stated bounds are outside the claim', 'sequential execution (no threads)']
PROPS = {}
EXTRA = {}

def U(name, src, defs=(), tiers=('quick', 'thorough'), **kw):
    d = dict(name=name, src=src, defs=list(defs), tiers=list(tiers)); d.update(kw); return d

# ------------------------------------------------------------------------------------------------ C14
PROPS['C14'] = dict(
  explanation='Bounded symbolic execution of the real compute_persistence_of_function_on_line and persistence_on_rectangle_from_top_cells (clang IR of the headers in /repo) with every cell value (and, for the line, the length) symbolic; z3 decides on every path that the emitted multiset of (dim,birth,death), the returned minimum and the index-mode output equal an independent merge-tree oracle. Complete inside the stated bounds; nothing outside them is claimed.',
  bounds=dict(quick='line: n<=5 int, n<=4 double and std::greater, values in 0..n; rectangle: 2x2, 2x3, 3x2 (values 0..3), value and index mode', thorough='line: n<=7; rectangle: + 3x3 (values 0..2), 2x4, 4x2'),
  outside=['grids larger than the bounds', 'NaN values'],
  assumptions=['values are totally ordered (no NaN)'],
  units=[
    U('line_int_n5', 'C14_line.cpp', ['VP_N=5'], weight=3),
    U('line_double_n4', 'C14_line.cpp', ['VP_N=4', 'VP_T=double'], weight=2),
    U('line_greater_n4', 'C14_line.cpp', ['VP_N=4', 'VP_GREATER'], weight=2),
    U('rect_2x2', 'C14_rect.cpp', ['VP_R=2', 'VP_C=2', 'VP_VMAX=4'], weight=1),
    U('rect_2x2_idx', 'C14_rect.cpp', ['VP_R=2', 'VP_C=2', 'VP_VMAX=4', 'VP_INDEX'], weight=1),
    U('rect_2x3', 'C14_rect.cpp', ['VP_R=2', 'VP_C=3', 'VP_VMAX=3'], weight=8),
    U('rect_3x2_idx', 'C14_rect.cpp', ['VP_R=3', 'VP_C=2', 'VP_VMAX=3', 'VP_INDEX'], weight=8),
    U('rect_3x3', 'C14_rect.cpp', ['VP_R=3', 'VP_C=3', 'VP_VMAX=2'], tiers=['thorough'], weight=20, jobs=8),
    U('rect_2x4', 'C14_rect.cpp', ['VP_R=2', 'VP_C=4', 'VP_VMAX=2'], tiers=['thorough'], weight=15, jobs=4),
    U('rect_4x2_idx', 'C14_rect.cpp', ['VP_R=4', 'VP_C=2', 'VP_VMAX=2', 'VP_INDEX'], tiers=['thorough'], weight=15, jobs=4),
    U('line_int_n7', 'C14_line.cpp', ['VP_N=7'], tiers=['thorough'], weight=9),
    U('line_double_n6', 'C14_line.cpp', ['VP_N=6', 'VP_T=double', 'VP_GRIDV'], tiers=['thorough'], weight=6),
  ])

# ------------------------------------------------------------------------------------------------ C10
_c10 = []
for p in (2, 3, 5, 7, 13):
    _c10.append(U('zp_elem_p%d' % p, 'C10_elem.cpp', ['VP_KIND=1', 'VP_P=%d' % p], weight=2))
for p in (3, 7):
    _c10.append(U('zp_shared_p%d' % p, 'C10_elem.cpp', ['VP_KIND=2', 'VP_P=%d' % p], weight=2))
_c10.append(U('z2_elem', 'C10_elem.cpp', ['VP_KIND=3'], weight=1))
for lo, hi in ((2, 3), (2, 5), (3, 5)):
    _c10.append(U('mfs_elem_%d_%d' % (lo, hi), 'C10_elem.cpp', ['VP_KIND=4', 'VP_LO=%d' % lo, 'VP_HI=%d' % hi], weight=4))
_c10.append(U('mfs_shared_2_5', 'C10_elem.cpp', ['VP_KIND=5', 'VP_LO=2', 'VP_HI=5'], weight=4))
for p in (2, 3, 7, 13): _c10.append(U('zp_ops_p%d' % p, 'C10_ops.cpp', ['VP_KIND=1', 'VP_P=%d' % p], weight=3))
_c10.append(U('z2_ops', 'C10_ops.cpp', ['VP_KIND=2'], weight=1))
for lo, hi in ((2, 3), (2, 5), (3, 5)): _c10.append(U('mfs_ops_%d_%d' % (lo, hi), 'C10_ops.cpp', ['VP_KIND=3', 'VP_LO=%d' % lo, 'VP_HI=%d' % hi], weight=5))
for p in (2, 3, 5, 11): _c10.append(U('cohomology_fzp_p%d' % p, 'C10_ops.cpp', ['VP_KIND=4', 'VP_P=%d' % p], weight=2))
_c10.append(U('refuse_nonprimes', 'C10_refuse.cpp', ['VP_PMAX=40'], weight=3))
for p in (31, 251): _c10.append(U('zp_ops_p%d' % p, 'C10_ops.cpp', ['VP_KIND=1', 'VP_P=%d' % p], tiers=['thorough'], weight=6))
for p in (31, 251): _c10.append(U('zp_elem_p%d' % p, 'C10_elem.cpp', ['VP_KIND=1', 'VP_P=%d' % p], tiers=['thorough'], weight=6))
for lo, hi in ((2, 7), (3, 7), (5, 13)): _c10.append(U('mfs_elem_%d_%d' % (lo, hi), 'C10_elem.cpp', ['VP_KIND=4', 'VP_LO=%d' % lo, 'VP_HI=%d' % hi], tiers=['thorough'], weight=8))
PROPS['C10'] = dict(
  explanation='Bounded symbolic execution of the real field classes (clang IR of the headers in /repo): operands are symbolic 32-bit machine integers (full range for conversion, addition, subtraction, comparison; reduced range for the shift-and-add multiplier and the inverses), the characteristic is concrete per unit; z3 proves on every path that the result equals 64-bit exact arithmetic reduced modulo the characteristic / the CRT characterisation of partial inverses.',
  bounds=dict(quick='Z_p element classes p in {2,3,5,7,13}, shared p in {3,7}, Z_2, small multi-fields [2,3],[2,5],[3,5]; operator classes and cohomology Field_Zp p<=13; all 32-bit operands for +,-,==,conversion; multiplier operand < modulus', thorough='+ p in {31,251}, ranges [2,7],[3,7],[5,13]'),
  outside=['GMP-backed Multi_field classes and the cohomology Multi_field (libgmp is machine code, not encodable)', 'functional equivalence of _multiply for characteristics beyond the listed ones', 'primes above 251'],
  technique='bounded symbolic execution (vpsx + z3) of the field classes with windowed / enumerated operands, and CBMC (cadical / kissat / cvc5 bv-as-int race) on the clang-IR-to-C translation of the arithmetic kernels with fully symbolic 32-bit operands; translation validated against the real code each run; counterexamples replayed natively',
  units=_c10)

# ------------------------------------------------------------------------------------------------ C01
_tags1 = ['end', 'insert_simplex_and_subfaces', 'insert_simplex', 'remove_maximal_simplex', 'prune_above_dimension', 'insert_batch_vertices']
PROPS['C01'] = dict(
  explanation='Bounded symbolic execution of the real Simplex_tree (clang IR of the headers in /repo) over *symbolic operation histories*: kind, vertex set and filtration value of each of k operations are solver variables; after every step every read interface (find, filtration, enumerations, skeleton, boundary with opposite vertices, star, cofaces of every codimension, counts per dimension, dimension, ==) is compared with an abstract-complex oracle, for six option sets. z3 decides each path; complete inside the bounds.',
  bounds=dict(quick='n=3 labels: histories of k=2 operations (7 kinds) from the empty tree, values 0..2, option sets default/full_featured/fast_persistence/minimal/stable-only/linked-only, default also with labels {-7,2,40}; plus ONE operation from every valid filtered complex on 3 labels with values 0..2 (solver-chosen state; default, full_featured, fast_persistence)', thorough='n=3,k=3 for every option set; n=4,k=2 default and full_featured'),
  outside=['histories longer than k', 'more than 4 vertices', 'Simplex_data payloads', 'insert_graph (covered with C04)', 'non-monotone intermediate states (documented precondition)'],
  assumptions=['every intermediate state is a filtered complex (closed under faces, monotone values)', 'remove_maximal_simplex only on a simplex without cofaces (documented precondition)', 'insert_simplex only when all faces are present'],
  units=[U('hist_opt%d_n3k2' % o, 'C01_history.cpp', ['VP_N=3', 'VP_K=2', 'VP_OPT=%d' % o], weight=12, must_reach=_tags1 + ([] if o in (2,) else ['clear']) + ([] if o == 3 else ['prune_above_filtration'])) for o in range(6)]
      + [U('hist_opt0_labels_n3k2', 'C01_history.cpp', ['VP_N=3', 'VP_K=2', 'VP_OPT=0', 'VP_LABELS=1'], weight=4, must_reach=_tags1)]
      + [U('step_opt%d_n3' % o, 'C01_history.cpp', ['VP_N=3', 'VP_K=1', 'VP_OPT=%d' % o, 'VP_STATE', 'VP_FMAX=1'], weight=25, must_reach=['end', 'insert_simplex_and_subfaces', 'remove_maximal_simplex', 'prune_above_dimension']) for o in (0, 1, 2)]
      + [U('hist_opt%d_n3k3' % o, 'C01_history.cpp', ['VP_N=3', 'VP_K=3', 'VP_OPT=%d' % o], tiers=['thorough'], weight=30, must_reach=_tags1) for o in range(6)]
      + [U('hist_opt%d_n4k2' % o, 'C01_history.cpp', ['VP_N=4', 'VP_K=2', 'VP_OPT=%d' % o], tiers=['thorough'], weight=30, must_reach=_tags1) for o in (0, 1)])

# ------------------------------------------------------------------------------------------------ C13
def _cub(name, d, sizes, per=(0, 0, 0), vert=0, mode='geom', vmax=2, tiers=('quick', 'thorough'), weight=3, t='double'):
    defs = ['VP_D=%d' % d] + ['VP_S%d=%d' % (i, sizes[i]) for i in range(d)] + ['VP_P%d=%d' % (i, per[i]) for i in range(d)] + ['VP_VERT=%d' % vert, 'VP_VMAX=%d' % vmax, 'VP_T=' + t]
    defs += {'geom': ['VP_GEOM'], 'vals': ['VP_SYMVALS'], 'order': ['VP_SYMVALS', 'VP_ORDER'], 'all': ['VP_GEOM', 'VP_SYMVALS', 'VP_ORDER']}[mode]
    return U(name, 'C13_cubical.cpp', defs, tiers=tiers, weight=weight)
PROPS['C13'] = dict(
  explanation='Bounded symbolic execution of the real Bitmap_cubical_complex(_periodic_boundary_conditions)_base (clang IR of the headers in /repo) for a table of grid shapes; the queried cell index and every top-cell / vertex value are solver variables. z3 decides on every path: dd=0 with signs alternating along the enumeration, boundary/coboundary are converse and equal the grid geometry recomputed by an independent mixed-radix oracle, incidence numbers are +-1, the cell value is the min over containing top cells (max over vertices), the filtration order is total, monotone and faces-first.',
  bounds=dict(quick='incidence/geometry clauses (symbolic cell): 1x3, 2x3, 3, 2x2x1, 2x2x2, torus 3x3 and 3x3x3, cylinders 3x2, 2x3, 3x1x2, vertex-input 2x2 and cylinder; value clause (symbolic values 0..2 + symbolic cell): 2x2, 1x3, 2x2 from vertices, cylinder 3x1; order clause: 2x2 (values 0..1), 3 (1-d); order and value clauses with +infinity as the top value (1x2, cylinder 3x1, 2x2)', thorough='+ value clause on 2x3, torus 3x3, 2x2x2; order clause 2x2 with values 0..2; float instantiation'),
  outside=['grids larger than the listed shapes', 'periodic sides shorter than 3', 'NaN values', 'Perseus file constructors (iostream)', 'persistence of the complex (see C02)'],
  units=[_cub('geom_1x3', 2, (1, 3)), _cub('geom_2x3', 2, (2, 3)), _cub('geom_3_1d', 1, (3,)), _cub('geom_2x2x1', 3, (2, 2, 1), weight=5), _cub('geom_2x2x2', 3, (2, 2, 2), weight=8),
         _cub('geom_torus3x3', 2, (3, 3), per=(1, 1, 0), weight=5), _cub('geom_cyl3x2', 2, (3, 2), per=(1, 0, 0)), _cub('geom_cyl2x3', 2, (2, 3), per=(0, 1, 0)), _cub('geom_torus3x3x3', 3, (3, 3, 3), per=(1, 1, 1), weight=12), _cub('geom_cyl3x1x2', 3, (3, 1, 2), per=(1, 0, 0), weight=6),
         _cub('geom_2x2_vert', 2, (2, 2), vert=1), _cub('geom_cyl3x2_vert', 2, (3, 2), per=(1, 0, 0), vert=1),
         _cub('vals_2x2', 2, (2, 2), mode='vals', weight=6), _cub('vals_1x3', 2, (1, 3), mode='vals', weight=4), _cub('vals_2x2_vert', 2, (2, 2), vert=1, mode='vals', vmax=1, weight=8), _cub('vals_cyl3x1', 2, (3, 1), per=(1, 0, 0), mode='vals', weight=5),
         _cub('order_1x2', 2, (1, 2), mode='order', vmax=2, weight=9), _cub('order_2x2', 2, (2, 2), mode='order', vmax=1, tiers=['thorough'], weight=30), _cub('order_3_1d', 1, (3,), mode='order', weight=5),
         dict(_cub('order_1x2_inf', 2, (1, 2), mode='order', vmax=1, weight=9), defs=_cub('x', 2, (1, 2), mode='order', vmax=1)['defs'] + ['VP_INFTOP']), dict(_cub('order_cyl3x1_inf', 2, (3, 1), per=(1, 0, 0), mode='order', vmax=1, weight=9), defs=_cub('x', 2, (3, 1), per=(1, 0, 0), mode='order', vmax=1)['defs'] + ['VP_INFTOP']), dict(_cub('vals_2x2_inf', 2, (2, 2), mode='vals', vmax=1, weight=6), defs=_cub('x', 2, (2, 2), mode='vals', vmax=1)['defs'] + ['VP_INFTOP']),
         _cub('vals_2x3', 2, (2, 3), mode='vals', tiers=['thorough'], weight=20), _cub('vals_torus3x3', 2, (3, 3), per=(1, 1, 0), mode='vals', vmax=1, tiers=['thorough'], weight=20), _cub('order_2x2_v2', 2, (2, 2), mode='order', vmax=2, tiers=['thorough'], weight=20),
         _cub('all_2x2_float', 2, (2, 2), mode='all', vmax=1, t='float', tiers=['thorough'], weight=20), _cub('vals_2x2x2', 3, (2, 2, 2), mode='vals', vmax=1, tiers=['thorough'], weight=25)])

# ------------------------------------------------------------------------------------------------ C09
_COLS = ['LIST', 'SET', 'HEAP', 'VECTOR', 'NAIVE_VECTOR', 'SMALL_VECTOR', 'UNORDERED_SET', 'INTRUSIVE_LIST', 'INTRUSIVE_SET']
def _c09(col, z2, rows=0, rmrows=0, mapc=0, swaps=0, compr=0, k=2, r=3, c0=2, tiers=('quick', 'thorough'), weight=3):
    name = 'base_%s_%s_r%d%d_m%d_s%d_c%d_k%d' % (col.lower(), 'z2' if z2 else 'z5', rows, rmrows, mapc, swaps, compr, k)
    cf = ['-U__SSE2__'] if col == 'UNORDERED_SET' else []
    extra = ['VP_COL_VECTOR'] if col == 'VECTOR' else []
    return U(name, 'C09_base.cpp', ['VP_COL=' + col, 'VP_Z2=%d' % z2, 'VP_ROWS=%d' % rows, 'VP_RMROWS=%d' % rmrows, 'VP_MAPC=%d' % mapc, 'VP_SWAPS=%d' % swaps, 'VP_COMPR=%d' % compr, 'VP_K=%d' % k, 'VP_R=%d' % r, 'VP_C0=%d' % c0] + extra, tiers=tiers, weight=weight, cflags=cf,
             must_reach=['end', 'add_to', 'multiply_target_and_add_to', 'multiply_source_and_add_to', 'insert_column'])
_u09 = []
for col in _COLS:
    _u09.append(_c09(col, 1)); _u09.append(_c09(col, 0, k=1, r=2, weight=5))
for col in _COLS:
    if col == 'HEAP': continue
    _u09.append(_c09(col, 1, rows=1, swaps=1, k=1 if col != 'INTRUSIVE_SET' else 2)); _u09.append(_c09(col, 0, rows=2, rmrows=1, mapc=1, k=1, r=2))
for col in ('INTRUSIVE_SET', 'VECTOR', 'LIST'):
    _u09.append(_c09(col, 1, compr=1, k=2)); _u09.append(_c09(col, 0, compr=1, rows=1, k=1, r=2))
_kf = _c09('INTRUSIVE_SET', 1, compr=1, k=1); _kf['name'] += '_kf'; _kf['defs'].append('VP_KF_EMPTY'); _kf['kf'] = 'C09-compression-empty-target'; _kf['must_reach'] = []; _u09.append(_kf)
_kf3 = _c09('INTRUSIVE_SET', 1, rows=1, swaps=1, k=2); _kf3['name'] += '_kf'; _kf3['defs'].append('VP_KF_COLSWAP'); _kf3['kf'] = 'C09-swap-columns-row-access'; _kf3['must_reach'] = []; _u09.append(_kf3)
_kf2 = _c09('VECTOR', 1, rows=1, k=1); _kf2['name'] += '_kf'; _kf2['defs'].append('VP_KF_LAZYROW'); _kf2['kf'] = 'C09-vector-lazy-erase-row'; _kf2['must_reach'] = []; _u09.append(_kf2)
for col in _COLS:
    _u09.append(_c09(col, 0, k=2, r=2, swaps=1, tiers=['thorough'], weight=20)); _u09.append(_c09(col, 1, k=3, c0=2, mapc=1, swaps=1, rows=0 if col == 'HEAP' else 1, tiers=['thorough'], weight=20))
PROPS['C09'] = dict(
  explanation='Bounded symbolic execution of the real Matrix<Options> with base-matrix options (clang IR of the headers in /repo) for a table of option sets (9 column containers x Z2/Z5 x row access x map/vector container x swaps x compression): initial content and every operation (kind, indices, coefficient, inserted column) are solver variables (structure forked to concrete values by the solver, coefficients symbolic); after every step the full content, zero tests and rows are compared with a dense int matrix oracle.',
  bounds=dict(quick='Z2: 3 rows, 2 initial columns + insertions, k=2 operations (k=1 for most row-access configurations); Z5: 2 rows, 2 initial columns, k=1; all 9 column types', thorough='Z2 k=3 with swaps, removals and row access; Z5 k=2'),
  outside=['matrices larger than the bounds', 'add/multiply of a column onto itself (not a documented use)', 'characteristics other than 2 and 5'],
  units=_u09)

# ------------------------------------------------------------------------------------------------ C05
def _pm(src, name, col='INTRUSIVE_SET', z2=1, flavour=0, idx=0, rows=0, removable=0, vine=0, rep=0, m=4, nv=3, extra=(), tiers=('quick', 'thorough'), weight=3, must=('end',), **kw):
    defs = ['VP_COL=' + col, 'VP_Z2=%d' % z2, 'VP_FLAVOUR=%d' % flavour, 'VP_IDX=%d' % idx, 'VP_ROWS=%d' % rows, 'VP_REMOVABLE=%d' % removable, 'VP_VINE=%d' % vine, 'VP_REP=%d' % rep, 'VP_M=%d' % m, 'VP_NV=%d' % nv] + list(extra)
    cf = ['-U__SSE2__'] if col == 'UNORDERED_SET' else []
    return U(name, src, defs, tiers=tiers, weight=weight, cflags=cf, must_reach=list(must), **kw)
_u05 = []
_FL = ['boundary', 'ru', 'chain']
for ci, col in enumerate(_COLS):
    for fl in range(3):
        if col == 'HEAP' and fl == 2: continue   # heap columns are not offered for chain matrices
        z2 = 1 if (ci + fl) % 2 == 0 else 0
        _u05.append(_pm('C05_matrix.cpp', 'm_%s_%s_%s' % (_FL[fl], col.lower(), 'z2' if z2 else 'z5'), col=col, z2=z2, flavour=fl, vine=0, rep=1 if fl == 1 else 0, m=4, weight=3))
for fl in range(3):
    for idx in (1, 2):
        _u05.append(_pm('C05_matrix.cpp', 'm_%s_idx%d_rows_rm' % (_FL[fl], idx), flavour=fl, idx=idx, rows=1, removable=1, rep=1 if fl == 1 else 0, m=4, extra=['VP_RM=2'], weight=6, must=('end', 'removed')))
for fl in range(3):
    _u05.append(_pm('C05_matrix.cpp', 'm_%s_gapped_ids_rm' % _FL[fl], flavour=fl, idx=0 if fl != 2 else 2, removable=1, rep=1 if fl == 1 else 0, m=4, extra=['VP_RM=2', 'VP_IDS'], weight=60, must=('end', 'removed')))
for fl in range(3):
    _u05.append(_pm('C05_matrix.cpp', 'm_%s_cw_null_boundaries' % _FL[fl], z2=fl % 2, flavour=fl, rep=1 if fl == 1 else 0, m=4, extra=['VP_CW'], weight=6))
_u05.append(_pm('C05_matrix.cpp', 'm_ru_z5_units', z2=0, flavour=1, rep=1, m=4, extra=['VP_UNITS'], weight=8))
_u05.append(_pm('C05_matrix.cpp', 'm_chain_z5_units_rm', z2=0, flavour=2, removable=1, m=4, extra=['VP_UNITS', 'VP_RM=1'], weight=8))
_u05.append(_pm('C05_matrix.cpp', 'm_boundary_set_rows2', col='SET', flavour=0, rows=2, m=5, weight=6))
for ci, col in enumerate(_COLS):
    for fl in range(3):
        if col == 'HEAP' and fl == 2: continue
        _u05.append(_pm('C05_matrix.cpp', 't_%s_%s_m6' % (_FL[fl], col.lower()), col=col, z2=(ci + fl + 1) % 2, flavour=fl, rep=1 if fl == 1 else 0, removable=1 if fl != 0 else 0, m=6, nv=4, extra=['VP_RM=2'] if fl != 0 else [], tiers=['thorough'], weight=30))
PROPS['C05'] = dict(
  explanation='Bounded symbolic execution of the real Matrix<Options> (Boundary_matrix / RU_matrix / Chain_matrix, clang IR of the headers in /repo) for a table of option sets: the filtration (which simplices, in which order; for Z_5 also a unit scaling every boundary = general cells) and the removed/re-inserted suffix are solver variables; on every path the barcode equals an independent dense reduction over the field and the exposed matrices satisfy their defining identities (R reduced with the pivots of the reduction, R/U factor the boundary matrix, pivot maps, chain columns with distinct leading cells, cycles / boundary onto partner).',
  bounds=dict(quick='every filtered sub-complex of the triangle with m=4 cells (m=5 for one unit), all 9 column types x {boundary, RU, chain} alternating Z2/Z5, position and identifier indexing with row access and removable columns incl. remove_last of up to 2 cells and re-insertion, Z5 with arbitrary unit coefficients, identifiers with gaps (reused after remove_last) for the three flavours; general cells of dimension > 0 attached with a null boundary (solver-chosen among the cells without cofaces)', thorough='m=6 cells of the tetrahedron for every column type and flavour with removals'),
  outside=['complexes with more cells than the bound', 'characteristics other than 2 and 5', 'the identity clauses for identifiers different from positions (the barcode clause is checked with gapped identifiers)'],
  units=_u05)

# ------------------------------------------------------------------------------------------------ C06
_u06 = []
for ci, col in enumerate(_COLS):
    if col != 'HEAP': _u06.append(_pm('C06_vine.cpp', 'v_chain_pos_%s' % col.lower(), col=col, flavour=2, idx=1, vine=1, m=4, extra=['VP_K=2'], weight=4, must=('end', 'swap', 'swap-true', 'swap-false')))
    _u06.append(_pm('C06_vine.cpp', 'v_ru_pos_%s' % col.lower(), col=col, flavour=1, idx=1, vine=1, m=4, extra=['VP_K=2'], weight=4, must=('end', 'swap', 'swap-true', 'swap-false')))
_u06.append(_pm('C06_vine.cpp', 'v_ru_id', flavour=1, idx=2, vine=1, m=4, extra=['VP_K=2', 'VP_NOIDENT'], weight=4, must=('end', 'swap')))
_u06.append(_pm('C06_vine.cpp', 'v_chain_id_rm', flavour=2, idx=2, vine=1, rows=1, removable=1, m=4, extra=['VP_K=2'], weight=8, must=('end', 'swap', 'remove_maximal_cell', 'insert')))
_u06.append(_pm('C06_vine.cpp', 'v_chain_pos_rm', flavour=2, idx=1, vine=1, rows=1, removable=1, m=4, extra=['VP_K=2'], weight=8, must=('end', 'swap', 'remove_maximal_cell', 'insert')))
_u06.append(_pm('C06_vine.cpp', 'v_ru_pos_rm', flavour=1, idx=1, vine=1, removable=1, m=4, extra=['VP_K=2'], weight=8, must=('end', 'swap', 'remove_maximal_cell', 'insert')))
_kf6 = _pm('C06_vine.cpp', 'v_ru_pos_rm_kf', flavour=1, idx=1, vine=1, removable=1, m=4, extra=['VP_K=2', 'VP_KF_RU_RM'], weight=8, must=()); _kf6['kf'] = 'C06-ru-swap-after-inner-removal'; _u06.append(_kf6)
_u06.append(_pm('C06_vine.cpp', 'v_ru_pos_m5k3', flavour=1, idx=1, vine=1, m=5, extra=['VP_K=3'], weight=10, must=('end', 'swap')))
_u06.append(_pm('C06_vine.cpp', 'v_ru_pos_vector_m5k3', col='VECTOR', flavour=1, idx=1, vine=1, m=5, extra=['VP_K=3'], weight=10, must=('end', 'swap')))
_u06.append(_pm('C06_vine.cpp', 'v_ru_pos_vector_graph_m8k2', col='VECTOR', flavour=1, idx=1, vine=1, m=8, nv=4, extra=['VP_K=2', 'VP_MAXDIM=1', 'VP_FORKCELL'], tiers=['thorough'], weight=40, jobs=16, must=('end', 'swap')))
_u06.append(_pm('C06_vine.cpp', 'v_ru_pos_nobarcode', flavour=1, idx=1, vine=1, m=4, extra=['VP_K=2', 'VP_BARCODE=0'], weight=4, must=('end', 'swap')))
_u06.append(_pm('C06_vine.cpp', 'v_ru_pos_nobarcode_m5k3', flavour=1, idx=1, vine=1, m=5, extra=['VP_K=3', 'VP_BARCODE=0'], tiers=['thorough'], weight=10, must=('end', 'swap')))
for fl in (1, 2):
    _u06.append(_pm('C06_vine.cpp', 'v_%s_pos_noreserve' % _FL[fl], flavour=fl, idx=1, vine=1, m=4, extra=['VP_K=2', 'VP_NORESERVE'], weight=4, must=('end', 'swap')))
_u06.append(_pm('C06_vine.cpp', 'v_ru_pos_vector_noreserve', col='VECTOR', flavour=1, idx=1, vine=1, m=4, extra=['VP_K=2', 'VP_NORESERVE'], weight=4, must=('end', 'swap')))
for fl in (1, 2):
    for col in ('INTRUSIVE_SET', 'VECTOR'):
        _u06.append(_pm('C06_vine.cpp', 'v_%s_pos_late_%s' % (_FL[fl], col.lower()), col=col, flavour=fl, idx=1, vine=1, m=5, extra=['VP_K=3', 'VP_LATE=2', 'VP_NORESERVE'], weight=8, must=('end', 'swap', 'insert')))
_u06.append(_pm('C06_vine.cpp', 'v_chain_id_rm_k3', flavour=2, idx=2, vine=1, rows=1, removable=1, m=4, extra=['VP_K=3'], weight=12, must=('end', 'swap', 'remove_maximal_cell', 'insert')))
_u06.append(_pm('C06_vine.cpp', 'v_chain_pos_rm_k3', flavour=2, idx=1, vine=1, rows=1, removable=1, m=4, extra=['VP_K=3'], weight=12, must=('end', 'swap', 'remove_maximal_cell', 'insert')))
_u06.append(_pm('C06_vine.cpp', 'v_ru_pos_nobarcode_rmlast_vector_container', flavour=1, idx=1, vine=1, removable=1, m=4, extra=['VP_K=3', 'VP_MAPC=0', 'VP_BARCODE=0'], weight=12, must=('end', 'swap', 'remove_maximal_cell', 'insert')))
_u06.append(_pm('C06_vine.cpp', 'v_ru_pos_nobarcode_rm', flavour=1, idx=1, vine=1, removable=1, m=4, extra=['VP_K=3', 'VP_BARCODE=0'], weight=12, must=('end', 'swap', 'remove_maximal_cell', 'insert')))
_kf6b = _pm('C06_vine.cpp', 'v_ru_pos_nobarcode_rm_kf', flavour=1, idx=1, vine=1, removable=1, m=4, extra=['VP_K=3', 'VP_BARCODE=0', 'VP_KF_RU_RM'], weight=8, must=()); _kf6b['kf'] = 'C06-ru-swap-after-inner-removal'; _u06.append(_kf6b)
_u06.append(_pm('C06_vine.cpp', 'v_ru_pos_rmlast_vector_container', flavour=1, idx=1, vine=1, removable=1, m=4, extra=['VP_K=3', 'VP_MAPC=0'], weight=12, must=('end', 'swap', 'remove_maximal_cell', 'insert')))
_u06.append(_pm('C06_vine.cpp', 'v_chain_pos_m5k3', flavour=2, idx=1, vine=1, m=5, extra=['VP_K=3'], weight=10, must=('end', 'swap')))
for ci, col in enumerate(_COLS):
    for fl in (1, 2):
        if col == 'HEAP' and fl == 2: continue
        _u06.append(_pm('C06_vine.cpp', 't_%s_pos_rm_%s' % (_FL[fl], col.lower()), col=col, flavour=fl, idx=1, vine=1, rows=1 if (fl == 2 and col != 'HEAP') else 0, removable=1, m=5, nv=4, extra=['VP_K=3'], tiers=['thorough'], weight=30, must=('end', 'swap')))
PROPS['C06'] = dict(
  explanation='Bounded symbolic execution of the real RU_vine_swap / Chain_vine_swap code through Matrix<Options> (clang IR of the headers in /repo): base filtration and a walk of admissible transpositions, removals of maximal cells and insertions are solver variables; after every step the matrix is compared with a matrix freshly built by the same code on the resulting filtration, with an independent dense reduction, and with its defining identities; the boolean returned by a transposition is checked against the two barcodes.',
  bounds=dict(quick='filtered sub-complexes of the triangle with m=4 cells, walks of k=2 steps (m=5, k=3 for the default column type), RU and chain flavours, all column types with position indexing, identifier indexing, removable columns with remove_maximal_cell and insertions (k=2 and k=3), Z2; walks with insertions interleaved (m=5: 3 cells up front, k=3) with and without announced capacity for INTRUSIVE_SET and VECTOR columns; RU without stored barcode; RU with removable columns on the vector container (remove_last)', thorough='m=5 cells of the tetrahedron, k=3, every column type with removals; RU + VECTOR columns: every filtration of 8 cells of dimension <= 1 on 4 vertices (enumerated) x 2 swaps; RU without barcode m=5 k=3'),
  outside=['walks longer than k', 'matrices without stored barcode (need user comparators; the truthfulness clause needs the barcode)', 'Z_p vine swaps (the library offers vine updates for Z_2 only)'],
  units=_u06)

# ------------------------------------------------------------------------------------------------ C08
_u08 = []
for col in _COLS:
    _u08.append(_pm('C08_repcycles.cpp', 'rep_ru_%s' % col.lower(), col=col, flavour=1, rep=1, m=5, weight=4))
    if col != 'HEAP': _u08.append(_pm('C08_repcycles.cpp', 'rep_chain_%s' % col.lower(), col=col, flavour=2, rep=1, m=5, weight=4))
_u08.append(_pm('C08_repcycles.cpp', 'rep_ru_rm', flavour=1, rep=1, removable=1, rows=1, m=5, extra=['VP_RM=2', 'VP_NOREINSERT'], weight=8, must=('end', 'removed')))
_u08.append(_pm('C08_repcycles.cpp', 'rep_chain_rm', flavour=2, rep=1, removable=1, m=5, extra=['VP_RM=2'], weight=8, must=('end', 'removed')))
_u08.append(_pm('C08_repcycles.cpp', 'rep_ru_tet6', flavour=1, rep=1, m=6, nv=4, weight=10))
_kf8 = _pm('C08_repcycles.cpp', 'rep_ru_tet6_kf', flavour=1, rep=1, m=6, nv=4, extra=['VP_KF_RUREP'], weight=10); _kf8['kf'] = 'C08-ru-cycle-from-inverse'; _u08.append(_kf8)
_kf8b = _pm('C08_repcycles.cpp', 'rep_ru_rm_norows_kf', flavour=1, rep=1, removable=1, m=5, extra=['VP_RM=2'], weight=8, must=()); _kf8b['kf'] = 'C08-ru-remove-last-stale-row'; _u08.append(_kf8b)
for fl in (1, 2):
    _u08.append(_pm('C08_repcycles.cpp', 'rep_%s_cone11' % _FL[fl], flavour=fl, rep=1, m=11, nv=4, extra=['VP_PREFIX_CONE', 'VP_FORKCELL'], weight=12))
_u08.append(_pm('C08_repcycles.cpp', 'rep_chain_tet6', flavour=2, rep=1, m=6, nv=4, weight=10))
for fl in (1, 2):
    _u08.append(_pm('C08_repcycles.cpp', 't_rep_%s_tet8' % _FL[fl], flavour=fl, rep=1, removable=1, m=8, nv=4, extra=['VP_RM=2'], tiers=['thorough'], weight=40))
    _u08.append(_pm('C08_repcycles.cpp', 't_rep_%s_tri7' % _FL[fl], flavour=fl, rep=1, m=7, nv=3, tiers=['thorough'], weight=20))
PROPS['C08'] = dict(
  explanation='Bounded symbolic execution of update_representative_cycles / get_representative_cycle(s) of the RU and chain matrices (clang IR of the headers in /repo) with the filtration (and a remove_last / re-insert prefix) as solver variables; every clause of the statement is asserted on every path with dense GF(2) algebra in the harness: cell dimensions, zero boundary, youngest cell = birth cell, the class is independent of older classes and boundaries at every index of [birth, death), dependent at the death (a boundary for the chain flavour), and the representatives of the alive bars are a homology basis at every index.',
  bounds=dict(quick='every filtered sub-complex of the triangle with m=5 cells for all column types and both flavours; m=6 cells of the tetrahedron for the default column type; remove_last of up to 2 cells + re-insertion; 11 cells: cone prefix (4 vertices, 3 edges from vertex 3) + 4 solver-chosen cells of the tetrahedron; Z2', thorough='m=7 (triangle), m=8 (tetrahedron) with removals'),
  outside=['Z_p representatives (the Cycle type carries no coefficients)', 'complexes beyond the bounds'],
  units=_u08)

# ------------------------------------------------------------------------------------------------ C16
_t16 = ['end', 'insert', 'remove_simplex', 'remove_vertex', 'contraction']
PROPS['C16'] = dict(
  explanation='Bounded symbolic execution of the real Toplex_map and Lazy_toplex_map (clang IR of the headers in /repo) driven in lock-step through symbolic histories of insertions, simplex removals (maximal and non-maximal), vertex removals and edge contractions; after every step membership of every vertex set, maximality, maximal cofaces, the number of stored simplices and of vertices are compared with an abstract-complex oracle, and the two variants with each other.',
  bounds=dict(quick='n=3 labels, k=3 operations, four label sets ({0,1,2}, {1,5,9}, {7,2^31,3}, {1,SIZE_MAX,3}); n=4, k=2', thorough='n=4, k=3; n=3, k=4'),
  outside=['histories longer than k', 'more than 4 vertices', 'the lazy map is compared with the eager one after a contraction only when both keep the same vertex (the choice is an implementation detail)'],
  units=[U('toplex_n3k3_l%d' % l, 'C16_toplex.cpp', ['VP_N=3', 'VP_K=3', 'VP_LABELS=%d' % l], cflags=['-U__SSE2__'], weight=5, must_reach=_t16) for l in range(4)]
      + [U('toplex_n4k2', 'C16_toplex.cpp', ['VP_N=4', 'VP_K=2'], cflags=['-U__SSE2__'], weight=8, must_reach=_t16)]
      + [U('toplex_n4k3', 'C16_toplex.cpp', ['VP_N=4', 'VP_K=3'], cflags=['-U__SSE2__'], tiers=['thorough'], weight=30, must_reach=_t16), U('toplex_n3k4', 'C16_toplex.cpp', ['VP_N=3', 'VP_K=4', 'VP_LABELS=1'], cflags=['-U__SSE2__'], tiers=['thorough'], weight=30, must_reach=_t16)])

# ------------------------------------------------------------------------------------------------ C17
_t17 = ['end', 'add_edge', 'add_edge_without_blockers', 'remove_star', 'contract_edge']
PROPS['C17'] = dict(
  explanation='Bounded symbolic execution of the real Skeleton_blocker_complex (clang IR of the headers in /repo) through symbolic edit histories (add_edge, add_edge_without_blockers, add_simplex, remove_star of simplices of any dimension, contract_edge under link_condition); after every step contains() on every vertex set, the blocker set (= minimal non-faces with all proper faces present), num_simplices and the simplex enumeration are compared with an abstract-complex oracle; a contraction must equal the image complex and keep the dense GF(2) Betti numbers and the Euler characteristic.',
  bounds=dict(quick='n=4 vertices, k=3 edits from the empty 1-skeleton and k=2 edits from the full simplex; n=5: k=2 from the full simplex, and one edit from the flag complex of every graph on 5 vertices', thorough='n=4, k=4; n=5, k=2'),
  outside=['more than 5 vertices', 'histories longer than k', 'geometric (point-carrying) complexes'],
  units=[U('skbl_n4k3', 'C17_skbl.cpp', ['VP_N=4', 'VP_K=3'], weight=6, must_reach=_t17), U('skbl_full_n4k2', 'C17_skbl.cpp', ['VP_N=4', 'VP_K=2', 'VP_START_FULL'], weight=6, must_reach=['end', 'remove_star', 'contract_edge']),
         U('skbl_full_n4k2_kf', 'C17_skbl.cpp', ['VP_N=4', 'VP_K=2', 'VP_START_FULL', 'VP_KF_STAR'], weight=4, must_reach=[], kf='C17-remove-star-sub-blocker'),
         U('skbl_graph_n5k1', 'C17_skbl.cpp', ['VP_N=5', 'VP_K=1', 'VP_START_GRAPH'], weight=20, must_reach=['end', 'remove_star', 'contract_edge', 'add_simplex']),
         U('skbl_n4k4', 'C17_skbl.cpp', ['VP_N=4', 'VP_K=4'], tiers=['thorough'], weight=30, must_reach=_t17), U('skbl_full_n5k2', 'C17_skbl.cpp', ['VP_N=5', 'VP_K=2', 'VP_START_FULL'], weight=30, must_reach=['end', 'remove_star'])])

# ------------------------------------------------------------------------------------------------ C20
PROPS['C20'] = dict(
  explanation='Bounded symbolic execution of the real Permutahedral_representation iterators (vertices, faces, facets, cofaces, cofacets, is_face_of) and of Freudenthal_triangulation::locate_point / barycenter (clang IR of the headers in /repo, Eigen included): the base vertex is symbolic, the ordered set partition ranges over the generated list of all ordered partitions of {0..d} (forked by the solver), the query point over a quarter-integer grid; the face lattice clauses are asserted as vertex-set statements and point location by the exact rational characterisation of the relative interior.',
  bounds=dict(quick='d=2 (13 ordered partitions) and d=3 (75): all simplices around a symbolic base vertex in [-1,1]^d; is_face_of against a second symbolic simplex (d=2); point location on the grid {-1,-3/4,..,1}^d for d=2,3, also after change_offset / construction with an offset in {0,1/4,1/2,3/4}^d; d=4 (541 partitions) for the face/coface lattice incl. completeness of coface_range (count of refinements, listed once)', thorough='+ point location d=4'),
  outside=['Coxeter_triangulation and general affine maps (point location goes through Eigen ColPivHouseholderQR::solve on symbolic data)', 'query points off the quarter-integer grid', 'ambient dimension above 4'],
  units=[U('perm_d2', 'C20_coxeter.cpp', ['VP_D=2'], weight=5), U('perm_d3', 'C20_coxeter.cpp', ['VP_D=3', 'VP_NO_SECOND'], weight=10), U('locate_d2', 'C20_coxeter.cpp', ['VP_D=2', 'VP_LOCATE'], weight=4), U('locate_d3', 'C20_coxeter.cpp', ['VP_D=3', 'VP_LOCATE'], weight=8), U('locate_offset_d2', 'C20_coxeter.cpp', ['VP_D=2', 'VP_LOCATE', 'VP_OFFSET'], weight=6), U('locate_offset_d3', 'C20_coxeter.cpp', ['VP_D=3', 'VP_LOCATE', 'VP_OFFSET'], weight=12),
         U('perm_d4', 'C20_coxeter.cpp', ['VP_D=4', 'VP_NO_SECOND'], weight=40), U('locate_d4', 'C20_coxeter.cpp', ['VP_D=4', 'VP_LOCATE'], tiers=['thorough'], weight=30)])

# ------------------------------------------------------------------------------------------------ C04
PROPS['C04'] = dict(
  explanation='Bounded symbolic execution of the real Simplex_tree::expansion, expansion_with_blockers, insert_edge_as_flag (+ make_filtration_non_decreasing) and Rips_complex::create_complex (clang IR of the headers in /repo): presence and weight of every possible edge, vertex values, the maximal dimension, the blocked set and the edge insertion order are solver variables; every route is compared with a clique-enumeration oracle (membership of all 2^n vertex sets, values, number of reported simplices) and the routes with each other (operator==).',
  bounds=dict(quick='n=4 vertices, each of the 6 edges absent or weighted 1..2, vertex values 0..1, d in 1..3, non-contiguous labels, blocked sets over the 5 vertex sets with >=3 vertices, every set of blocked triangles of the complete graph on 5 vertices, 7 insertion orders; Rips from a distance matrix with thresholds 0..2', thorough='n=5 (10 edges, weights 0..1 with 4 more symbolic), double filtration values'),
  outside=['graphs with more than 5 vertices', 'Rips from point coordinates (Euclidean distance of symbolic coordinates)', 'stateful blocker oracles'],
  units=[U('flag_n4', 'C04_flag.cpp', ['VP_N=4', 'VP_WMAX=2'], weight=8, must_reach=['end', 'edges-in-order', 'edges-rotated']), U('flag_n4_labels_block', 'C04_flag.cpp', ['VP_N=4', 'VP_WMAX=1', 'VP_LABELS=1', 'VP_BLOCK', 'VP_NOEDGEFLAG'], weight=8, must_reach=['end', 'blockers']),
         U('flag_n4_rips', 'C04_flag.cpp', ['VP_N=4', 'VP_WMAX=2', 'VP_RIPS', 'VP_NOEDGEFLAG'], weight=8, must_reach=['end', 'rips']), U('flag_n3_double', 'C04_flag.cpp', ['VP_N=3', 'VP_WMAX=2', 'VP_FT=double', 'VP_BLOCK'], weight=4, must_reach=['end']),
         U('flag_k5_blocked_triangles', 'C04_flag.cpp', ['VP_N=5', 'VP_WMAX=1', 'VP_COMPLETE', 'VP_BLOCK', 'VP_BLOCKMAX=3', 'VP_NOEDGEFLAG', 'VP_LABELS=1'], weight=8, must_reach=['end', 'blockers']),
         U('flag_n5', 'C04_flag.cpp', ['VP_N=5', 'VP_WMAX=1'], tiers=['thorough'], weight=40, must_reach=['end']), U('flag_n4_double_block', 'C04_flag.cpp', ['VP_N=4', 'VP_WMAX=2', 'VP_FT=double', 'VP_BLOCK'], tiers=['thorough'], weight=40, must_reach=['end'])])

# ------------------------------------------------------------------------------------------------ C03
PROPS['C03'] = dict(
  explanation='Bounded symbolic execution of the real Simplex_tree::filtration_simplex_range (sort + comparator), make_filtration_non_decreasing, prune_above_filtration, extend_filtration and decode_extended_filtration (clang IR of the headers in /repo) on symbolic face-closed shapes with symbolic filtration values (ties, non-monotone assignments, NaN and infinities where documented; finite-grid doubles with host IEEE arithmetic for the extended filtration). The schedule/sort independence is reduced to the comparator being a strict total order consistent with values and faces (the contract of std::stable_sort / tbb::parallel_sort is trusted), plus equal sequences for different insertion histories and option sets.',
  bounds=dict(quick='all face-closed complexes on 3 vertices; values 0..2 (order and monotonisation), + NaN and +-inf thresholds (pruning); extended filtration with vertex values on {0,0.5,..,2} (cold and warm filtration cache); monotonisation also with an integer Filtration_value option set', thorough='4 vertices: full tetrahedron boundary and all shapes with values 0..1'),
  outside=['real TBB execution / thread schedules (the engine is sequential; covered through the comparator contract)', 'more than 4 vertices', 'Bitmap_cubical_complex::filtration_simplex_range (checked under C13)'],
  units=[U('order_n3', 'C03_filtration.cpp', ['VP_MODE=0', 'VP_N=3', 'VP_VMAX=2'], weight=10), U('monotonise_n3', 'C03_filtration.cpp', ['VP_MODE=1', 'VP_N=3', 'VP_VMAX=2'], weight=6), U('prune_n3', 'C03_filtration.cpp', ['VP_MODE=2', 'VP_N=3', 'VP_VMAX=2'], weight=8),
         U('monotonise_n3_int', 'C03_filtration.cpp', ['VP_MODE=1', 'VP_N=3', 'VP_VMAX=2', 'VP_INTFILT'], weight=6),
         U('extended_n3', 'C03_filtration.cpp', ['VP_MODE=3', 'VP_N=3', 'VP_VMAX=2'], weight=8),
         U('order_n4_full', 'C03_filtration.cpp', ['VP_MODE=0', 'VP_N=4', 'VP_VMAX=1', 'VP_FULL'], tiers=['thorough'], weight=40), U('monotonise_n4_full', 'C03_filtration.cpp', ['VP_MODE=1', 'VP_N=4', 'VP_VMAX=1', 'VP_FULL'], tiers=['thorough'], weight=30, jobs=16), U('prune_n4_full', 'C03_filtration.cpp', ['VP_MODE=2', 'VP_N=4', 'VP_VMAX=1', 'VP_FULL'], tiers=['thorough'], weight=30), U('extended_n4', 'C03_filtration.cpp', ['VP_MODE=3', 'VP_N=4', 'VP_VMAX=1'], tiers=['thorough'], weight=30)])

# ------------------------------------------------------------------------------------------------ C15
_u15 = [U('st_copy_move_opt%d' % o, 'C15_st.cpp', ['VP_OPT=%d' % o, 'VP_N=3'], weight=8, must_reach=['end', 'copy-ctor', 'copy-assign', 'self-assign', 'move-ctor', 'move-assign', 'swap']) for o in (0, 1, 2, 3)]
_u15 += [U('st_serial_opt%d' % o, 'C15_st.cpp', ['VP_OPT=%d' % o, 'VP_N=3', 'VP_SERIAL'], weight=6, must_reach=['end', 'serialize', 'wrong-length']) for o in (0, 1, 2, 3)]
_u15 += [U('st_serial_short_kf', 'C15_st.cpp', ['VP_OPT=0', 'VP_N=3', 'VP_SERIAL', 'VP_KF_SHORT'], weight=6, must_reach=[], kf='C15-deserialize-short-buffer')]
for fl in range(1, 3):
    for col, z2 in (('INTRUSIVE_SET', 1), ('LIST', 1), ('HEAP', 1)) if fl == 1 else (('INTRUSIVE_SET', 1), ('INTRUSIVE_LIST', 0), ('VECTOR', 1)):
        _u15.append(_pm('C15_matrix.cpp', 'mat_%s_%s' % (_FL[fl], col.lower()), col=col, z2=z2, flavour=fl, rows=1 if col not in ('HEAP',) else 0, removable=1, rep=1 if fl == 1 else 0, m=4, weight=6, must=('end', 'copy-ctor', 'copy-assign', 'self-assign', 'move-ctor', 'move-assign', 'swap', 'mutate-source', 'mutate-copy')))
_u15.append(_pm('C15_matrix.cpp', 'mat_ru_vine_pending_swap', flavour=1, idx=1, vine=1, removable=1, rep=0, m=4, weight=8, must=('end', 'copy-ctor', 'copy-assign', 'swap', 'preswap')))
_u15.append(_pm('C15_matrix.cpp', 'mat_ru_vine_pending_swap_vector_container', flavour=1, idx=1, vine=1, removable=1, rep=0, m=4, extra=['VP_MAPC=0'], weight=8, must=('end', 'copy-ctor', 'copy-assign', 'swap', 'preswap')))
_kf15 = _pm('C15_matrix.cpp', 'mat_ru_moved_from_kf', flavour=1, removable=1, rep=1, m=4, extra=['VP_KF_MOVED'], weight=4, must=()); _kf15['kf'] = 'C15-moved-from-matrix'; _u15.append(_kf15)
_kf15b = _pm('C15_matrix.cpp', 'mat_ru_zp_moved_from_kf', col='LIST', z2=0, flavour=1, removable=1, rep=1, m=4, extra=['VP_KF_MOVED'], weight=4, must=()); _kf15b['kf'] = 'C15-moved-from-matrix'; _u15.append(_kf15b)
PROPS['C15'] = dict(
  explanation='Bounded symbolic execution of the real copy/move constructors, assignments (incl. self-assignment onto and from non-empty trees/matrices), swap, serialize/deserialize (clang IR of the headers in /repo): source and target states come from symbolic operation histories, the copy is compared with the source observationally, then both are mutated by further symbolic operations and one is destroyed while the other is re-observed against its own model. The engine\'s byte-level memory model (every load/store must fall inside one live object; exact-size serialisation buffers; use-after-free, double free, invalid free detection) decides the memory-safety clause in this and in every other check.',
  bounds=dict(quick='Simplex_tree: n=3 labels, histories of 2+1+1 operations, 4 option sets, 6 ways of copying/moving, serialisation with buffer length perturbations -8..+8; matrices: base/boundary/RU/chain flavours with pool allocators, 4-cell filtrations; RU with vine updates copied with a pending row permutation (map and vector container), identities of the copy', thorough='n=4 labels'),
  outside=['text round trip through operator<< / operator>> (libstdc++ iostream/locale is machine code)', 'independent objects used from different threads (the engine is sequential)', 'uninitialised-value tracking (not implemented in the engine)'],
  units=_u15)

# ------------------------------------------------------------------------------------------------ C02
PROPS['C02'] = dict(
  explanation='Bounded symbolic execution of the real Persistent_cohomology<Simplex_tree, Field_Zp> (annotation matrix, union-find, Field_Zp tables; clang IR of the headers in /repo): the shape, the monotone filtration values (with ties), min_interval_length and the persistence_dim_max flag are solver variables, the prime is concrete per unit; on every path the multiset of (dimension, birth, death), betti_number(s), persistent_betti_number and intervals_in_dimension are compared with a signed dense boundary-matrix reduction over Z_p performed in the harness on the order filtration_simplex_range exposes.',
  bounds=dict(quick='all face-closed complexes on 3 vertices with values 0..2 for p in {2,3,5,7}; on 4 vertices with values 0..1 for p=2,3; the 6-vertex projective plane (torsion) for p=2 and p=3', thorough='4 vertices with values 0..2, p=11 and p=46337 on 3 vertices'),
  outside=['multi-field mode (Multi_field uses GMP: libgmp is machine code and cannot be encoded)', 'Hasse_complex and cubical inputs (the same engine object; cubical incidences are checked under C13)', 'complexes beyond the bounds'],
  units=[U('coh_n3_p%d' % p, 'C02_cohomology.cpp', ['VP_N=3', 'VP_P=%d' % p, 'VP_VMAX=2'], weight=5) for p in (2, 3, 5, 7)]
      + [U('coh_n4_p%d' % p, 'C02_cohomology.cpp', ['VP_N=4', 'VP_P=%d' % p, 'VP_VMAX=1'], weight=15, jobs=8) for p in (2, 3)]
      + [U('coh_rp2_p%d' % p, 'C02_cohomology.cpp', ['VP_N=6', 'VP_P=%d' % p, 'VP_VMAX=2', 'VP_RP2'], weight=6) for p in (2, 3)]
      + [U('coh_n4_v2_p3', 'C02_cohomology.cpp', ['VP_N=4', 'VP_P=3', 'VP_VMAX=2'], tiers=['thorough'], weight=40), U('coh_n3_p11', 'C02_cohomology.cpp', ['VP_N=3', 'VP_P=11', 'VP_VMAX=2'], tiers=['thorough'], weight=10), U('coh_n3_p46337', 'C02_cohomology.cpp', ['VP_N=3', 'VP_P=46337', 'VP_VMAX=1'], tiers=['thorough'], weight=40)])

# ------------------------------------------------------------------------------------------------ C07
PROPS['C07'] = dict(
  explanation='Bounded symbolic execution of the real Zigzag_persistence and Filtered_zigzag_persistence (chain matrix with vine swaps, surjective/injective diamonds; clang IR of the headers in /repo) over symbolic arrow sequences (insertion of a cell whose boundary is present, removal of a cell without coface, identity). Per arrow an in-harness oracle (dense GF(2) Betti numbers) fixes whether a class is born or dies, its dimension and index; each streamed finite interval must close an open birth of that dimension at that arrow, the open intervals must be exactly the unclosed births, insertion-only sequences must reproduce the pairing of an independent boundary-matrix reduction, the full interval decomposition (which birth is paired with which death) must equal the one computed by an independent right-filtration algorithm (Carlsson-de Silva) on explicit GF(2) homology bases, and the filtered front-end must report the same intervals translated to monotone symbolic filtration values minus the zero-length ones.',
  bounds=dict(quick='all admissible sequences of k=6 arrows over the faces of the triangle (with the full decomposition oracle); k=5 with the two filtered front-ends (streaming; storing with ignoreCyclesAboveDim in {-1,0,1}); 4 vertices + triangle boundary fixed, then 3 solver-chosen arrows (filtered); k=5 on the tetrahedron; graph zigzags on 4 vertices with 5 edge arrows (full oracle)', thorough='k=7 (triangle, full oracle), k=6 (tetrahedron), graph zigzags on 4 vertices with 8 edge arrows (full oracle)'),
  outside=['sequences longer than k', 'column types other than the default of the class'],
  units=[U('zz_tri_k6', 'C07_zigzag.cpp', ['VP_K=6', 'VP_NV=3'], cflags=['-U__SSE2__'], weight=10, must_reach=['end', 'insert', 'remove', 'identity', 'insert-only']),
         U('zz_tri_k5_filtered', 'C07_zigzag.cpp', ['VP_K=5', 'VP_NV=3', 'VP_FILTERED'], cflags=['-U__SSE2__'], weight=10, must_reach=['end', 'insert', 'remove']),
         U('zz_k4t_prefix_k10_filtered', 'C07_zigzag.cpp', ['VP_K=10', 'VP_NV=4', 'VP_FILTERED', 'VP_PREFIX_K4T'], cflags=['-U__SSE2__'], weight=10, must_reach=['end', 'insert', 'remove']),
         U('zz_tet_k5', 'C07_zigzag.cpp', ['VP_K=5', 'VP_NV=4'], cflags=['-U__SSE2__'], weight=10, must_reach=['end', 'insert', 'remove']),
         U('zz_tri_k6_full', 'C07_zigzag.cpp', ['VP_K=6', 'VP_NV=3', 'VP_FULLORACLE'], cflags=['-U__SSE2__'], weight=10, must_reach=['end', 'full-oracle', 'remove']),
         U('zz_graph4_e5_full', 'C07_zigzag.cpp', ['VP_K=9', 'VP_NV=4', 'VP_FULLORACLE', 'VP_EDGES_ONLY'], cflags=['-U__SSE2__'], weight=12, must_reach=['end', 'full-oracle', 'remove']),
         U('zz_graph4_e8_full', 'C07_zigzag.cpp', ['VP_K=12', 'VP_NV=4', 'VP_FULLORACLE', 'VP_EDGES_ONLY'], cflags=['-U__SSE2__'], tiers=['thorough'], weight=80, budget=3300, must_reach=['end', 'full-oracle']),
         U('zz_tri_k7', 'C07_zigzag.cpp', ['VP_K=7', 'VP_NV=3', 'VP_FULLORACLE'], cflags=['-U__SSE2__'], tiers=['thorough'], weight=40, must_reach=['end']), U('zz_tet_k6', 'C07_zigzag.cpp', ['VP_K=6', 'VP_NV=4'], cflags=['-U__SSE2__'], tiers=['thorough'], weight=40, must_reach=['end'])])

# ------------------------------------------------------------------------------------------------ C12
PROPS['C12'] = dict(
  explanation='Bounded symbolic execution of the real flag_complex_collapse_edges (Flag_complex_edge_collapser, both neighbour-table implementations; clang IR of the headers in /repo): presence and weight of every possible edge are solver variables; on every path the output is a subset of the input edges with values not smaller, and the dense Z_2 persistence diagrams (all dimensions) of the flag filtrations of input and output, both computed by an in-harness oracle that does the clique expansion definitionally, are equal.',
  bounds=dict(quick='every graph on 4 vertices with each edge absent or weighted 1..3 (flat-map neighbour tables) / 1..2 (dense-array tables, permuted vertex labels); every graph on 5 vertices with unit weights; weights are finite-grid doubles', thorough='5 vertices, weights 1..3, dense tables; float weights 1..4 on 4 vertices; 6 vertices: the octahedron graph with weights 1..3 (both tables) and the complete graph with weights 1..2 (dense tables)'),
  outside=['graphs with more than 5 vertices', 'TBB parallel sort (sequential build only)'],
  units=[U('collapse_n4_w3', 'C12_collapse.cpp', ['VP_N=4', 'VP_WMAX=3', 'VP_WT=double', 'VP_GRIDW'], cflags=['-U__SSE2__'], weight=10), U('collapse_n4_w2_dense_labels', 'C12_collapse.cpp', ['VP_N=4', 'VP_WMAX=2', 'VP_LABELS=1', 'VP_WT=double', 'VP_GRIDW', 'GUDHI_COLLAPSE_USE_DENSE_ARRAY'], cflags=['-U__SSE2__'], weight=8),
         U('collapse_n5_w1', 'C12_collapse.cpp', ['VP_N=5', 'VP_WMAX=1', 'VP_WT=double', 'VP_GRIDW'], cflags=['-U__SSE2__'], weight=10), U('collapse_n5_w2', 'C12_collapse.cpp', ['VP_N=5', 'VP_WMAX=2', 'VP_WT=double', 'VP_GRIDW', 'VP_FORKW'], cflags=['-U__SSE2__'], tiers=['thorough'], weight=60),
         U('collapse_octahedron_w3_dense', 'C12_collapse.cpp', ['VP_N=6', 'VP_WMAX=3', 'VP_WT=double', 'VP_GRIDW', 'VP_FORKW', 'VP_GRAPH=1', 'GUDHI_COLLAPSE_USE_DENSE_ARRAY'], cflags=['-U__SSE2__'], tiers=['thorough'], weight=60, budget=3300),
         U('collapse_k6_w2_dense', 'C12_collapse.cpp', ['VP_N=6', 'VP_WMAX=2', 'VP_WT=double', 'VP_GRIDW', 'VP_FORKW', 'VP_GRAPH=2', 'GUDHI_COLLAPSE_USE_DENSE_ARRAY'], cflags=['-U__SSE2__'], tiers=['thorough'], weight=20, budget=3300),
         U('collapse_k6_w3_tri1_dense', 'C12_collapse.cpp', ['VP_N=6', 'VP_WMAX=3', 'VP_WT=double', 'VP_GRIDW', 'VP_FORKW', 'VP_GRAPH=2', 'VP_FIXTRI=1', 'GUDHI_COLLAPSE_USE_DENSE_ARRAY'], cflags=['-U__SSE2__'], tiers=['thorough'], weight=60, budget=3300),
         U('collapse_k6_w3_tri1', 'C12_collapse.cpp', ['VP_N=6', 'VP_WMAX=3', 'VP_WT=double', 'VP_GRIDW', 'VP_FORKW', 'VP_GRAPH=2', 'VP_FIXTRI=1'], cflags=['-U__SSE2__'], tiers=['thorough'], weight=60, budget=3300),
         U('collapse_n5_w3_dense', 'C12_collapse.cpp', ['VP_N=5', 'VP_WMAX=3', 'VP_WT=double', 'VP_GRIDW', 'VP_FORKW', 'GUDHI_COLLAPSE_USE_DENSE_ARRAY'], cflags=['-U__SSE2__'], tiers=['thorough'], weight=60), U('collapse_n4_float_w4', 'C12_collapse.cpp', ['VP_N=4', 'VP_WMAX=4', 'VP_WT=float', 'VP_GRIDW'], cflags=['-U__SSE2__'], tiers=['thorough'], weight=40)])

# ------------------------------------------------------------------------------------------------ C11
_t11 = ['end', 'full', 'lower', 'upper', 'sparse']
PROPS['C11'] = dict(
  explanation='Bounded symbolic execution of the real Ripser engine (gudhi/ripser.h: distance-matrix classes, the three simplex encodings incl. the 128-bit integer class, coboundary enumerators, apparent pairs, the hash-map based cohomology; clang IR of the headers in /repo): every dissimilarity is a finite-grid float (ties, no triangle inequality), threshold, dim_max, input form and encoding are forked by the solver, the modulus is concrete per unit; the streamed intervals (zero-length dropped) are compared as multisets per dimension with a dense signed Z_p reduction of the truncated Rips flag filtration computed in the harness.',
  bounds=dict(quick='all quick units run concrete matrices enumerated by the solver (the symbolic grid-float variants are in the thorough tier). n=4: dissimilarities in {1,2,3} (p=2), and in {0,1,2} (zero entries between distinct points, no triangle inequality) as concrete matrices enumerated by the solver (p=2 and 3); n=5 in {1,2} (p=2, enumerated); thresholds {0.5,1,2,inf}, dim_max 0..n-2, forms full/lower/upper/sparse, encodings auto/bitfield-64/bitfield-128/cns-128 combined by a covering design (every pair of factor levels); n=3 modulus 5, values {0,1,2,3}; unit bigindex: 5 active points with labels 1030+256i among 2055 sparse vertices, p=3, dim_max 2 (packed simplex indices exceed 32 bits and differ in their high bits)', thorough='full cross product at n=4 with values {1,2,3} (enumerated); n=5 with {0,1} and {1,2} (p=3, enumerated); n=4 (p=2, p=3) and n=3 (p=5) with symbolic grid floats'),
  outside=['Euclidean point-cloud input (sqrt of symbolic coordinates)', 'more than 5 points', 'the SIMD path of boost::unordered_flat_map (compiled with -U__SSE2__)', 'moduli above 5'],
  budget=dict(quick=1200, thorough=3300),
  units=[U('ripser_n4_p2_enum', 'C11_ripser.cpp', ['VP_N=4', 'VP_P=2', 'VP_DMAX=3', 'VP_FORKD'], cflags=['-U__SSE2__'], weight=10, must_reach=_t11), U('ripser_n4_p2', 'C11_ripser.cpp', ['VP_N=4', 'VP_P=2', 'VP_DMAX=2'], cflags=['-U__SSE2__'], tiers=['thorough'], weight=20, must_reach=_t11),
         U('ripser_n4_p3_zero', 'C11_ripser.cpp', ['VP_N=4', 'VP_P=3', 'VP_DMAX=2', 'VP_DLO=0', 'VP_FORKD'], cflags=['-U__SSE2__'], weight=10, must_reach=_t11),
         U('ripser_n4_p2_zero', 'C11_ripser.cpp', ['VP_N=4', 'VP_P=2', 'VP_DMAX=2', 'VP_DLO=0', 'VP_FORKD'], cflags=['-U__SSE2__'], weight=10, must_reach=_t11),
         U('ripser_n5_p2_forked', 'C11_ripser.cpp', ['VP_N=5', 'VP_P=2', 'VP_DMAX=2', 'VP_FORKD'], cflags=['-U__SSE2__'], weight=14, must_reach=_t11),
         U('ripser_n5_p3_bigindex', 'C11_ripser.cpp', ['VP_N=5', 'VP_P=3', 'VP_DMAX=2', 'VP_PAD=1030', 'VP_PADGAP=256', 'VP_PADDIM=2', 'VP_FORKD'], cflags=['-U__SSE2__'], weight=20, must_reach=['end', 'sparse']),
         U('ripser_n3_p5_enum', 'C11_ripser.cpp', ['VP_N=3', 'VP_P=5', 'VP_DMAX=3', 'VP_DLO=0', 'VP_FORKD'], cflags=['-U__SSE2__'], weight=5, must_reach=_t11), U('ripser_n3_p5', 'C11_ripser.cpp', ['VP_N=3', 'VP_P=5', 'VP_DMAX=3'], cflags=['-U__SSE2__'], tiers=['thorough'], weight=20, must_reach=_t11),
         U('ripser_n4_p3', 'C11_ripser.cpp', ['VP_N=4', 'VP_P=3', 'VP_DMAX=2'], cflags=['-U__SSE2__'], tiers=['thorough'], weight=20, must_reach=_t11),
         U('ripser_n4_p2_cross', 'C11_ripser.cpp', ['VP_N=4', 'VP_P=2', 'VP_DMAX=3', 'VP_CROSS', 'VP_FORKD'], cflags=['-U__SSE2__'], tiers=['thorough'], weight=60, must_reach=_t11),
         U('ripser_n5_p3_zero', 'C11_ripser.cpp', ['VP_N=5', 'VP_P=3', 'VP_DMAX=1', 'VP_DLO=0', 'VP_FORKD'], cflags=['-U__SSE2__'], tiers=['thorough'], weight=60, must_reach=_t11),
         U('ripser_n5_p3_forked', 'C11_ripser.cpp', ['VP_N=5', 'VP_P=3', 'VP_DMAX=2', 'VP_FORKD'], cflags=['-U__SSE2__'], tiers=['thorough'], weight=60, must_reach=_t11)])

# ------------------------------------------------------------------------------------------------ C18
PROPS['C18'] = dict(
  explanation='Bounded symbolic execution of the real Persistence_landscape (construction from a diagram, evaluation, +, -, *, abs, average, integrals, L^p and sup distances, inner product) and Persistence_landscape_on_grid (clang IR of the headers in /repo): the interval endpoints are finite-grid doubles forked to concrete dyadic values by the solver, so the library arithmetic is exact host IEEE arithmetic and every quantity is compared EXACTLY with the definition (k-th largest tent value at every quarter point, Simpson integrals that are exact for piecewise linear/quadratic functions with half-integer breakpoints).',
  bounds=dict(quick='diagrams of m=2 intervals with births in {0..3} and lengths in {1..3} (repeated, nested, touching), all levels, all quarter points of [-0.5,7.5]; pairs of such diagrams for the algebra/distances; gridded form on [0,7] with 14 cells; m=4 intervals with births in {0,1} and lengths in {2..5} (tied births, nested); gridded class: sums, differences, negative multiples, sup distance and sup norm (m=2)', thorough='m=3 intervals'),
  outside=['non-dyadic data (comparison would need error bounds)', 'exponents p other than 1, 2, infinity', 'file constructors (iostream)'],
  units=[U('land_pointwise_m2', 'C18_landscape.cpp', ['VP_M=2', 'VP_MODE=0'], weight=5, must_reach=['end', 'pointwise']), U('land_algebra_m2', 'C18_landscape.cpp', ['VP_M=2', 'VP_MODE=1'], weight=10, must_reach=['end', 'algebra']),
         U('land_pointwise_m4_ties', 'C18_landscape.cpp', ['VP_M=4', 'VP_MODE=0', 'VP_NB=2', 'VP_NL=4', 'VP_L0=2'], weight=8, must_reach=['end', 'pointwise']),
         U('land_gridded_algebra_m2', 'C18_landscape.cpp', ['VP_M=2', 'VP_MODE=2'], weight=10, must_reach=['end', 'gridded-algebra']),
         U('land_pointwise_m3', 'C18_landscape.cpp', ['VP_M=3', 'VP_MODE=0'], tiers=['thorough'], weight=30, must_reach=['end']), U('land_algebra_m3', 'C18_landscape.cpp', ['VP_M=3', 'VP_MODE=1'], tiers=['thorough'], weight=60, must_reach=['end'])])

# ------------------------------------------------------------------------------------------------ C19
def _c19(name, n, seed, extra=(), tiers=('quick', 'thorough'), weight=5):
    return U(name, 'C19_sparse_rips.cpp', ['VP_N=%d' % n] + list(extra), tiers=tiers, weight=weight, vpsx_args=['--random-device', str(seed)], env={'VP_RANDOM_DEVICE': str(seed)})
PROPS['C19'] = dict(
  explanation='Bounded symbolic execution of the real Sparse_rips_complex (choose_n_farthest_points_metric, compute_sparse_graph, create_complex with the blocker expansion of Simplex_tree; clang IR of the headers in /repo): the finite metric (grid distances under the triangle inequality) and epsilon are forked to concrete dyadic values by the solver, std::random_device is an environment stub; every simplex must be a Rips simplex not earlier than its diameter, the complex must be face-closed and monotone (also for epsilon >= 1 and finite mini/maxi), and the persistence diagrams of the sparse and the full Rips filtrations (dense Z_2 oracle in the harness) must be within multiplicative bottleneck distance 1/(1-epsilon) in every dimension (brute-force matching).',
  bounds=dict(quick='n=3 and n=4 points, distances in {1,1.5,2,2.5,3} satisfying the triangle inequality, epsilon in {1/4,1/2,3/4}; validity clause also for epsilon in {1,2} and mini=1.5 / maxi=2; three random-device values (different starting points); 4 distinct integer points in 0..12 on a line with epsilon in {1/8,1/4,3/8,1/2,3/4} (exact ties)', thorough='n=5 with distances in {1,1.5,2}'),
  outside=['point-cloud input with Euclidean distances of symbolic coordinates', 'epsilon off the listed values', 'more than 5 points'],
  units=[_c19('srips_n3_seed0', 3, 0), _c19('srips_n4_seed0', 4, 0, weight=10), _c19('srips_n4_seed7', 4, 7, weight=10), _c19('srips_n4_seed12345', 4, 12345, weight=10), _c19('srips_n4_validity', 4, 3, extra=['VP_VALIDITY_ONLY', 'VP_GRIDN=3'], weight=10), _c19('srips_n3_validity', 3, 5, extra=['VP_VALIDITY_ONLY'], weight=4),
         _c19('srips_n4_line12', 4, 2, extra=['VP_LINE=12'], weight=40),
         _c19('srips_n5', 5, 1, extra=['VP_GRIDN=3'], tiers=['thorough'], weight=60)])

import sys, os
sys.path.insert(0, os.path.join(os.path.dirname(os.path.abspath(__file__)), 'engine'))
import cbmc_c10
EXTRA['C10'] = cbmc_c10.run

NOT_APPLICABLE = {}
NOTES = 'Clauses outside every claim: real thread schedules/TBB execution (engine is sequential), iostream text I/O, GMP arbitrary precision, Eigen-based Coxeter point location under general affine maps, SIMD paths of boost::unordered_flat_map (compiled with -U__SSE2__), allocation failure, inputs beyond the stated bounds.'


# ------------------------------------------------------------------------------------------------ tiers actually registered
# The units below are larger variants that were written but NOT validated to finish inside the per-unit cap on this machine (several ran into
# it). A registered command must never answer INCONCLUSIVE on the unchanged tree, so they are kept out of the quick and thorough tiers and run
# only with `./check <ID> --tier deep` (not in MANIFEST.json; budget 3 h per unit). Promote a unit by deleting it from this list once it passed.
DEEP_ONLY = [["C03", "monotonise_n4_full"],
  ["C10", "zp_ops_p31"],
  ["C10", "zp_ops_p251"],
  ["C10", "zp_elem_p31"],
  ["C10", "zp_elem_p251"],
  ["C10", "mfs_elem_2_7"],
  ["C10", "mfs_elem_3_7"],
  ["C10", "mfs_elem_5_13"],
  ["C01", "hist_opt0_n3k3"],
  ["C01", "hist_opt1_n3k3"],
  ["C01", "hist_opt2_n3k3"],
  ["C01", "hist_opt3_n3k3"],
  ["C01", "hist_opt4_n3k3"],
  ["C01", "hist_opt5_n3k3"],
  ["C01", "hist_opt0_n4k2"],
  ["C01", "hist_opt1_n4k2"],
  ["C13", "order_2x2"],
  ["C13", "vals_2x3"],
  ["C13", "vals_torus3x3"],
  ["C13", "order_2x2_v2"],
  ["C13", "all_2x2_float"],
  ["C13", "vals_2x2x2"],
  ["C09", "base_list_z5_r00_m0_s1_c0_k2"],
  ["C09", "base_list_z2_r10_m1_s1_c0_k3"],
  ["C09", "base_set_z5_r00_m0_s1_c0_k2"],
  ["C09", "base_set_z2_r10_m1_s1_c0_k3"],
  ["C09", "base_heap_z5_r00_m0_s1_c0_k2"],
  ["C09", "base_heap_z2_r00_m1_s1_c0_k3"],
  ["C09", "base_vector_z5_r00_m0_s1_c0_k2"],
  ["C09", "base_vector_z2_r10_m1_s1_c0_k3"],
  ["C09", "base_naive_vector_z5_r00_m0_s1_c0_k2"],
  ["C09", "base_naive_vector_z2_r10_m1_s1_c0_k3"],
  ["C09", "base_small_vector_z5_r00_m0_s1_c0_k2"],
  ["C09", "base_small_vector_z2_r10_m1_s1_c0_k3"],
  ["C09", "base_unordered_set_z5_r00_m0_s1_c0_k2"],
  ["C09", "base_unordered_set_z2_r10_m1_s1_c0_k3"],
  ["C09", "base_intrusive_list_z5_r00_m0_s1_c0_k2"],
  ["C09", "base_intrusive_list_z2_r10_m1_s1_c0_k3"],
  ["C09", "base_intrusive_set_z5_r00_m0_s1_c0_k2"],
  ["C09", "base_intrusive_set_z2_r10_m1_s1_c0_k3"],
  ["C05", "t_boundary_list_m6"],
  ["C05", "t_ru_list_m6"],
  ["C05", "t_chain_list_m6"],
  ["C05", "t_boundary_set_m6"],
  ["C05", "t_ru_set_m6"],
  ["C05", "t_chain_set_m6"],
  ["C05", "t_boundary_heap_m6"],
  ["C05", "t_ru_heap_m6"],
  ["C05", "t_boundary_vector_m6"],
  ["C05", "t_ru_vector_m6"],
  ["C05", "t_chain_vector_m6"],
  ["C05", "t_boundary_naive_vector_m6"],
  ["C05", "t_ru_naive_vector_m6"],
  ["C05", "t_chain_naive_vector_m6"],
  ["C05", "t_boundary_small_vector_m6"],
  ["C05", "t_ru_small_vector_m6"],
  ["C05", "t_chain_small_vector_m6"],
  ["C05", "t_boundary_unordered_set_m6"],
  ["C05", "t_ru_unordered_set_m6"],
  ["C05", "t_chain_unordered_set_m6"],
  ["C05", "t_boundary_intrusive_list_m6"],
  ["C05", "t_ru_intrusive_list_m6"],
  ["C05", "t_chain_intrusive_list_m6"],
  ["C05", "t_boundary_intrusive_set_m6"],
  ["C05", "t_ru_intrusive_set_m6"],
  ["C05", "t_chain_intrusive_set_m6"],
  ["C06", "t_ru_pos_rm_list"],
  ["C06", "t_chain_pos_rm_list"],
  ["C06", "t_ru_pos_rm_set"],
  ["C06", "t_chain_pos_rm_set"],
  ["C06", "t_ru_pos_rm_heap"],
  ["C06", "t_ru_pos_rm_vector"],
  ["C06", "t_chain_pos_rm_vector"],
  ["C06", "t_ru_pos_rm_naive_vector"],
  ["C06", "t_chain_pos_rm_naive_vector"],
  ["C06", "t_ru_pos_rm_small_vector"],
  ["C06", "t_chain_pos_rm_small_vector"],
  ["C06", "t_ru_pos_rm_unordered_set"],
  ["C06", "t_chain_pos_rm_unordered_set"],
  ["C06", "t_ru_pos_rm_intrusive_list"],
  ["C06", "t_chain_pos_rm_intrusive_list"],
  ["C06", "t_ru_pos_rm_intrusive_set"],
  ["C06", "t_chain_pos_rm_intrusive_set"],
  ["C08", "t_rep_ru_tet8"],
  ["C08", "t_rep_ru_tri7"],
  ["C08", "t_rep_chain_tet8"],
  ["C08", "t_rep_chain_tri7"],
  ["C04", "flag_n5"],
  ["C04", "flag_n4_double_block"],
  ["C03", "order_n4_full"],
  ["C03", "prune_n4_full"],
  ["C03", "extended_n4"],
  ["C02", "coh_n4_v2_p3"],
  ["C02", "coh_n3_p11"],
  ["C02", "coh_n3_p46337"],
  ["C07", "zz_tri_k7"],
  ["C07", "zz_tet_k6"],
  ["C12", "collapse_n5_w2"],
  ["C12", "collapse_octahedron_w3_dense"],
  ["C12", "collapse_n5_w3_dense"],
  ["C12", "collapse_n4_float_w4"],
  ["C11", "ripser_n4_p2"],
  ["C11", "ripser_n3_p5"],
  ["C11", "ripser_n4_p3"],
  
  
  
  ["C19", "srips_n5"]]
for _pid, _name in DEEP_ONLY:
    for _u in PROPS[_pid]['units']:
        if _u['name'] == _name: _u['tiers'] = ['deep']

_TH = {'C11': 'quick tier + full cross product of thresholds, dim_max, forms and encodings at n=4 with values {1,2,3} (175k enumerated inputs); n=5 with values {0,1} and {1,2}, p=3 (enumerated)',
       'C06': 'quick tier + RU with VECTOR columns: every filtration of 8 cells of dimension <= 1 on 4 vertices (enumerated) x 2 swaps; RU without stored barcode m=5 k=3',
       'C07': 'quick tier + graph zigzags on 4 vertices with 8 edge arrows (right-filtration oracle, 3.7M paths)',
       'C12': 'quick tier + complete graph on 6 vertices: weights in {1,2} (dense table); 12 free weights in {1,2,3} with the triangle {0,1,2} at 1, for both neighbour-table implementations (enumerated, 531k inputs each)'}
for _pid, _P in PROPS.items():
    _deep = [u for u in _P['units'] if 'deep' in u['tiers']]
    if not _deep: continue
    _b = dict(_P['bounds']); _b['deep (not registered, not validated to finish within the cap)'] = _b['thorough']
    _b['thorough'] = _TH.get(_pid, 'the same units as the quick tier')
    _P['bounds'] = _b
