#!/usr/bin/env python3
"""keepseed.py <ID> <caught:yes|no|after-strengthening> "<what it needs to manifest>" "<which units/labels caught it or why missed>"  -- files /tmp/seed/<ID> -> seeded/<ID>/"""
import sys, os, shutil, json, re
i, caught, needs, how = sys.argv[1:5]; SR = os.environ.get('SEEDROOT', '/tmp/seed'); SUF = os.environ.get('SEEDSUFFIX', ''); d = SR + '/' + i; o = os.path.join(os.path.dirname(os.path.abspath(__file__)), 'seeded', i + SUF); os.makedirs(o, exist_ok=True)
shutil.copy(d + '/seed.patch', o + '/patch.diff'); shutil.copy(d + '/demo.cpp', o + '/demo.cpp')
cmd = open(d + '/demo_cmd.txt').read().replace(d, '$WT'); open(o + '/demo_cmd.txt', 'w').write(cmd)
if os.path.exists(d + '/notes.md'): shutil.copy(d + '/notes.md', o + '/notes.md')
rep = open(SR + '/%s.report' % i).read() if os.path.exists(SR + '/%s.report' % i) else ''
m = re.search(r'passed=(\d+) failed=(\d+)', rep)
json.dump(dict(property=i, breaks=open(d + '/notes.md').read()[:700] if os.path.exists(d + '/notes.md') else '', needs_to_manifest=needs, produced_by='independent sub-agent given only the property text and a scratch worktree',
  confirmed=dict(demo_with_patch='exit non-zero (violation reported)', demo_without_patch='exit 0', existing_tests_with_patch=('%s passed, %s failed (the failure is the baseline always_fail test Edge_collapse_utilities_diff_persistence when present)' % (m.group(1), m.group(2))) if m else 'see notes.md',
                 how='seedtest.sh: bash demo_cmd.txt with and without the patch in the scratch worktree; ctest in the worktree build dir with the patch applied; git -C /repo apply patch.diff; ./check %s; git -C /repo checkout -- .' % i),
  check_result=dict(caught=caught, detail=how)), open(o + '/meta.json', 'w'), indent=1)
print('kept', o)
