#!/bin/bash
# Runs the repository's baseline test-suite with the verification guard OFF (no -DGUDHI_VERIF_HOOKS anywhere in the cmake build).
# Exit 0 iff every test of BASELINE.json's stable_pass set passes (the two baseline always_fail tests may fail).
cd /repo/_build || exit 2
cmake --build . -j16 > /tmp/baseline_build.log 2>&1 || { echo "build failed"; tail -30 /tmp/baseline_build.log; exit 2; }
ctest --test-dir /repo/_build -j8 --timeout 900 > /tmp/baseline_ctest.log 2>&1
python3 - <<'PY'
import re, json, sys
log = open('/tmp/baseline_ctest.log').read()
passed = set(re.findall(r'Test\s+#\d+:\s+(\S+)\s+\.+\s+Passed', log))
failed = set(re.findall(r'Test\s+#\d+:\s+(\S+)\s+\.+\**\s*(?:Failed|Exception|Timeout|Not Run)', log))
try: base = {t.split('::')[0] for t in json.load(open('/root/.vp/BASELINE.json'))['stable_pass']}
except Exception: base = None
if base is None:
    bad = failed - {'Edge_collapse_utilities_diff_persistence', 'Persistence_heat_maps_test_unit'}
else: bad = base - passed
print('passed=%d failed=%d missing_from_baseline=%d' % (len(passed), len(failed), len(bad)))
for b in sorted(bad): print('BASELINE-REGRESSION', b)
sys.exit(1 if bad else 0)
PY
