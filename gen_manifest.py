#!/usr/bin/env python3
# regenerates MANIFEST.json from props.py (claimed checks) — properties without a check are listed under not_applicable
import json, props, subprocess
ids = [json.loads(l)['id'] for l in open('properties.jsonl')]
titles = {json.loads(l)['id']: json.loads(l)['title'] for l in open('properties.jsonl')}
try: commits = subprocess.run(['git', '-C', '/repo', 'log', '--format=%h %s', '--grep=^hook:'], stdout=subprocess.PIPE, text=True).stdout.strip().split('\n')
except Exception: commits = []
checks = []
for i in ids:
    if i not in props.PROPS or props.PROPS[i].get('disabled'): continue
    P = props.PROPS[i]
    checks.append(dict(property_id=i, quick_cmd='./check %s --tier quick' % i, thorough_cmd='./check %s --tier thorough' % i, evidence_file='evidence/%s.json' % i,
        replay_cmd_template='./check %s --replay {path}' % i, engine='vpsx' + ('+cbmc' if i in props.EXTRA else ''),
        level_claimed=dict(category='other', text=P['explanation'], design_ref='DESIGN.md section 6/' + i),
        level_note='Bounded: ' + json.dumps(P['bounds']) + '. Trusted base: clang-14 IR at -O1, libLLVM IR reader, z3 4.8.12, the vpsx interpreter (validated each run by native replay of every model and differential digests), engine/shim_std.cpp, the in-harness oracle. Outside the claim: ' + '; '.join(P.get('outside', [])),
        technique=P.get('technique', 'bounded symbolic execution of the real code (clang LLVM IR, own executor vpsx) with z3 deciding every branch and assertion over all values inside the stated bounds (structural choices and, in the units marked enumerated, input values are enumerated by the solver: one path per feasible value, none sampled); counterexamples replayed natively')))
na = [dict(property_id=i, reason=props.NOT_APPLICABLE.get(i, 'check not built yet (work in progress)')) for i in ids if i not in [c['property_id'] for c in checks]]
m = dict(version=1, setup_cmd='./setup.sh',
  hooks=dict(guard='GUDHI_VERIF_HOOKS', enable='harnesses are compiled by ./check with -DGUDHI_VERIF_HOOKS against /repo/src/*/include (header-only library; no cmake involvement)', baseline_off_cmd='./baseline_off.sh', source_commits=[c for c in commits if c], add_only=True),
  engines=[dict(name='vpsx', path='engine/vpsx.cpp', serves_properties=[c['property_id'] for c in checks], kind_free_text='forking symbolic executor over clang-14 LLVM IR of the real GUDHI headers; z3 decides every branch and assertion; native replay of every model'),
           dict(name='ll2c+cbmc', path='engine/ll2c.py', serves_properties=[i for i in props.EXTRA], kind_free_text='LLVM IR -> C translator feeding CBMC 6.11 for loop-carried bit-vector kernels')],
  checks=checks, notes=props.NOTES, not_applicable=na)
json.dump(m, open('MANIFEST.json', 'w'), indent=1)
print('claimed:', [c['property_id'] for c in checks]); print('not claimed:', [n['property_id'] for n in na])
