#!/bin/bash
# builds the engine from /verif sources only (offline)
set -e
cd "$(dirname "$0")"
mkdir -p build evidence
g++ -O2 -std=c++17 -fno-rtti -ffp-contract=off -I/usr/lib/llvm-14/include -D_GNU_SOURCE -D__STDC_CONSTANT_MACROS -D__STDC_FORMAT_MACROS -D__STDC_LIMIT_MACROS \
  engine/vpsx.cpp -o build/vpsx -L/usr/lib/llvm-14/lib -lLLVM-14 -lz3
echo "setup ok"
