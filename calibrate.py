#!/usr/bin/env python3
"""calibrate.py -- after a full run of a tier (./check <ID> [--tier thorough] for every property), record the measured cost of every unit
(job-seconds = wall seconds x vpsx workers) from evidence/*.json into calib.json; ./check then shares the cores in proportion to these costs.
Only a scheduling aid: it changes neither what is explored nor any verdict."""
import json, glob, os
R = os.path.dirname(os.path.abspath(__file__)); p = os.path.join(R, 'calib.json')
try: c = json.load(open(p))
except Exception: c = {}
for f in sorted(glob.glob(os.path.join(R, 'evidence', 'C*.json'))):
    d = json.load(open(f))
    for u in d['coverage'].get('units', []):
        if u.get('jobs') and u.get('wall_s'): c['%s/%s/%s' % (d['property_id'], d['tier'], u['name'])] = round(max(1.0, u['wall_s'] * u['jobs']), 1)
json.dump(c, open(p, 'w'), indent=0, sort_keys=True); print(len(c), 'units calibrated')
