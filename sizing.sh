#!/bin/bash
# Bound-sizing aid (NOT a check, produces no evidence): builds one harness natively against a tree (default /repo; SRCROOT=<worktree with a seeded change>)
# and runs it on TRIALS random inputs drawn inside the declared ranges. Tells at which bounds a change becomes visible before the bound is spent on the solver.
# usage: SRCROOT=/tmp/seed/C06 ./sizing.sh harness/C06_vine.cpp TRIALS -DVP_M=6 ...
SRC=$1; T=$2; shift 2; R=${SRCROOT:-/repo}; W=$(mktemp -d /tmp/sizing.XXXX)
INCS=$(for d in $R/src/*/include; do echo -n "-I $d "; done)
clang++-14 -std=c++17 -O1 -w -ffp-contract=off -DGUDHI_VERIF_HOOKS $INCS -I /verif/engine -I /verif/harness "$@" $SRC /verif/engine/vp_native.cpp -o $W/nat || { rm -rf $W; exit 2; }
VP_NATIVE_RANDOM=1:$T $W/nat; rm -rf $W
