// C02: Persistent_cohomology returns the persistence pairs of the filtration order the complex exposes, for the prime VP_P.
// Symbolic: the shape (face-closed complex on VP_N vertices, or a fixed list entry), monotone filtration values with ties, min_interval_length, persistence_dim_max.
// Oracle: textbook column reduction of the signed boundary matrix over Z_p in the order filtration_simplex_range exposes.
#include "vp.h"
#include <gudhi/Simplex_tree.h>
#include <gudhi/Persistent_cohomology.h>
#include <vector>
#ifndef VP_N
#define VP_N 3
#endif
#ifndef VP_P
#define VP_P 3
#endif
#ifndef VP_VMAX
#define VP_VMAX 2
#endif
struct Opt : Gudhi::Simplex_tree_options_default { typedef int Filtration_value; };
typedef Gudhi::Simplex_tree<Opt> ST;
typedef Gudhi::persistent_cohomology::Persistent_cohomology<ST, Gudhi::persistent_cohomology::Field_Zp> PC;
enum { N = VP_N, NS = 1 << VP_N, MAXS = NS, P = VP_P };
static int pcnt(int m) { return __builtin_popcount(m); }
static std::vector<int> word(int m) { std::vector<int> w; for (int i = 0; i < N; i++) if (m >> i & 1) w.push_back(i); return w; }
static int inv_mod(int a) { a %= P; for (int x = 1; x < P; x++) if (a * x % P == 1) return x; return 0; }
extern "C" void harness() {
  bool shape[NS]; int f[NS];
#ifdef VP_RP2
  // minimal 6-vertex triangulation of the projective plane (torsion: H1 = Z/2); values: the 10 triangles share one symbolic value above the rest
  static const int tri[10][3] = {{0,1,4},{0,1,5},{0,2,3},{0,2,5},{0,3,4},{1,2,3},{1,2,4},{1,3,5},{2,4,5},{3,4,5}};
  for (int m = 0; m < NS; m++) shape[m] = false; for (int t = 0; t < 10; t++) { int m = 1 << tri[t][0] | 1 << tri[t][1] | 1 << tri[t][2]; for (int s = 1; s < NS; s++) if ((s & m) == s) shape[s] = true; }
  { int fe = vp_fork_int(vp_int("fe", 0, 1)), ft = vp_fork_int(vp_int("ft", 0, 2)); vp_assume(ft >= fe); for (int m = 1; m < NS; m++) if (shape[m]) f[m] = pcnt(m) == 1 ? 0 : pcnt(m) == 2 ? fe : ft; }
#else
  for (int m = 1; m < NS; m++) shape[m] = pcnt(m) == 1 ? true : (vp_fork_int(vp_int("in", 0, 1)) != 0);
  for (int m = 1; m < NS; m++) if (shape[m]) for (int s = 1; s < NS; s++) if ((s & m) == s) vp_assume(shape[s]);
  for (int m = 1; m < NS; m++) if (shape[m]) f[m] = vp_fork_int(vp_int("f", 0, VP_VMAX));   // the value pattern is forked by the solver: every monotone assignment (with ties) gets its own path
  for (int m = 1; m < NS; m++) if (shape[m]) for (int s = 1; s < NS; s++) if ((s & m) == s && s != m) vp_assume(f[s] <= f[m]);
#endif
  ST st; for (int d = 1; d <= N; d++) for (int m = 1; m < NS; m++) if (shape[m] && pcnt(m) == d) st.insert_simplex(word(m), f[m]);
  bool dimmax = vp_fork_int(vp_int("dim_max", 0, 1)) != 0;
  for (int minlen = 0; minlen <= VP_VMAX; minlen++) {   // every min_interval_length of the value range
  PC pc(st, dimmax); pc.init_coefficients(P); pc.compute_persistent_cohomology(minlen);
  // ---- oracle
  int ord[MAXS], pos[NS], n = 0; for (int m = 0; m < NS; m++) pos[m] = -1;
  for (auto sh : st.filtration_simplex_range()) { int m = 0; for (auto v : st.simplex_vertex_range(sh)) m |= 1 << v; if (n < MAXS) { ord[n] = m; pos[m] = n; n++; } }
  { int cnt = 0; for (int m = 1; m < NS; m++) if (shape[m]) cnt++; vp_assert(n == cnt, "the filtration range lists the complex"); }
  static int D[MAXS][MAXS]; for (int i = 0; i < n; i++) for (int j = 0; j < n; j++) D[i][j] = 0;
  for (int j = 0; j < n; j++) { int m = ord[j]; if (pcnt(m) > 1) { int sign = 1; for (int v = 0; v < N; v++) if (m >> v & 1) { D[pos[m & ~(1 << v)]][j] = sign == 1 ? 1 : P - 1; sign = -sign; } } }
  int low[MAXS], pairOf[MAXS]; for (int j = 0; j < n; j++) pairOf[j] = -1;
  for (int j = 0; j < n; j++) { while (true) { int l = -1; for (int r = n - 1; r >= 0; r--) if (D[r][j]) { l = r; break; } low[j] = l; if (l < 0) break; int k = -1; for (int q = 0; q < j; q++) if (low[q] == l) { k = q; break; } if (k < 0) break;
      int c = D[l][j] * inv_mod(D[l][k]) % P; for (int r = 0; r < n; r++) D[r][j] = ((D[r][j] - c * D[r][k]) % P + P) % P; }
    if (low[j] >= 0) { pairOf[low[j]] = j; pairOf[j] = low[j]; } }
  int cdim = -1; for (int m = 1; m < NS; m++) if (shape[m] && pcnt(m) - 1 > cdim) cdim = pcnt(m) - 1;
  // ---- expected multiset of (dim, birth value, death value | INF): intervals no longer than minlen dropped; classes of the top dimension only if asked
  enum { INF = VP_VMAX + 1 }; int exp[N][VP_VMAX + 1][VP_VMAX + 2], got[N][VP_VMAX + 1][VP_VMAX + 2]; for (int a = 0; a < N; a++) for (int b = 0; b <= VP_VMAX; b++) for (int c = 0; c <= VP_VMAX + 1; c++) exp[a][b][c] = got[a][b][c] = 0;
  for (int j = 0; j < n; j++) if (low[j] >= 0) { int b = low[j]; int fb = f[ord[b]], fd = f[ord[j]]; if (fd - fb > minlen) exp[pcnt(ord[b]) - 1][fb][fd]++; }
  for (int j = 0; j < n; j++) if (pairOf[j] < 0 && low[j] < 0 && (dimmax || pcnt(ord[j]) - 1 < cdim)) exp[pcnt(ord[j]) - 1][f[ord[j]]][INF]++;
  for (auto& pr : pc.get_persistent_pairs()) { int dim = st.dimension(std::get<0>(pr)); int b = st.filtration(std::get<0>(pr)); int d = std::get<1>(pr) == st.null_simplex() ? INF : st.filtration(std::get<1>(pr));
    vp_assert(std::get<2>(pr) == P, "every interval is labelled with the characteristic"); vp_assert(dim >= 0 && dim < N && b >= 0 && b <= VP_VMAX && d >= 0 && d <= INF, "interval within range"); if (dim >= 0 && dim < N && b >= 0 && b <= VP_VMAX && d >= 0 && d <= INF) got[dim][b][d]++; }
  for (int a = 0; a < N; a++) for (int b = 0; b <= VP_VMAX; b++) for (int c = 0; c <= VP_VMAX + 1; c++) vp_assert(exp[a][b][c] == got[a][b][c], "persistence pairs = independent boundary-matrix reduction over Z_p");
  // ---- Betti numbers, persistent Betti numbers and per-dimension interval lists follow from the pairs
  for (int a = 0; a < N; a++) { int be = 0; for (int b = 0; b <= VP_VMAX; b++) be += exp[a][b][INF]; vp_assert(pc.betti_number(a) == be, "betti_number");
    for (int from = 0; from <= VP_VMAX; from++) for (int to = 0; to <= VP_VMAX; to++) { int pb = 0; for (int b = 0; b <= VP_VMAX; b++) for (int c = 0; c <= INF; c++) if (b <= from && (c == INF || c > to)) pb += exp[a][b][c];
    vp_assert(pc.persistent_betti_number(a, from, to) == pb, "persistent_betti_number"); }
    int tot = 0; for (int b = 0; b <= VP_VMAX; b++) for (int c = 0; c <= INF; c++) tot += exp[a][b][c]; vp_assert((int)pc.intervals_in_dimension(a).size() == tot, "intervals_in_dimension"); }
  { auto bn = pc.betti_numbers(); for (int a = 0; a < (int)bn.size() && a < N; a++) { int be = 0; for (int b = 0; b <= VP_VMAX; b++) be += exp[a][b][INF]; vp_assert(bn[a] == be, "betti_numbers"); } }
  }
  vp_reach("end");
}
