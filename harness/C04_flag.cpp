// C04: flag (clique) expansions build exactly the clique complex, by every route.
// Symbolic: presence and weight of each possible edge on VP_N vertices, vertex values, the maximal dimension, the blocked set, the order of edge insertion.
// Oracle: clique enumeration over the 2^n vertex sets with value = max over vertices and edges.
#include "vp.h"
#include <gudhi/Simplex_tree.h>
#include <gudhi/graph_simplicial_complex.h>
#ifdef VP_RIPS
#include <gudhi/Rips_complex.h>
#endif
#include <vector>
#ifndef VP_N
#define VP_N 4
#endif
#ifndef VP_WMAX
#define VP_WMAX 2
#endif
#ifndef VP_FT
#define VP_FT int
#endif
#ifndef VP_BLOCKMAX
#define VP_BLOCKMAX 0
#endif
struct Opt : Gudhi::Simplex_tree_options_default { typedef VP_FT Filtration_value; static const bool link_nodes_by_label = true; };
typedef Gudhi::Simplex_tree<Opt> ST; typedef VP_FT FV;
enum { N = VP_N, NS = 1 << VP_N, NE = VP_N * (VP_N - 1) / 2 };
#if VP_LABELS == 1
static const int label[5] = {-3, 2, 7, 40, 41};
#else
static const int label[5] = {0, 1, 2, 3, 4};
#endif
static int eu[NE], ev[NE];
static std::vector<int> word(int m) { std::vector<int> w; for (int i = 0; i < N; i++) if (m >> i & 1) w.push_back(label[i]); return w; }
static int pcnt(int m) { return __builtin_popcount(m); }
static void compare(ST& t, const bool* present, const FV* val, const char* lm, const char* lv) {
  int cnt = 0; for (int m = 1; m < NS; m++) { auto sh = t.find(word(m)); vp_assert((sh != t.null_simplex()) == present[m], lm); if (present[m] && sh != t.null_simplex()) { cnt++; vp_assert(t.filtration(sh) == val[m], lv); } }
  vp_assert((int)t.num_simplices() == cnt, "number of simplices");
}
extern "C" void harness() {
  { int e = 0; for (int i = 0; i < N; i++) for (int j = i + 1; j < N; j++) { eu[e] = i; ev[e] = j; e++; } }
#ifdef VP_COMPLETE
  int w[NE]; for (int e = 0; e < NE; e++) w[e] = 1;                              // complete graph, unit weights: the blocked set is the variable
#else
  int w[NE]; for (int e = 0; e < NE; e++) w[e] = vp_int("w", 0, VP_WMAX);      // 0 = absent
#endif
#ifdef VP_COMPLETE
  int vv[N]; for (int i = 0; i < N; i++) vv[i] = 0;
#else
  int vv[N]; for (int i = 0; i < N; i++) vv[i] = vp_int("v", 0, 1);
#endif
  (void)0;              // vertex values (edges are at least as late as their vertices)
  for (int e = 0; e < NE; e++) if (w[e]) vp_assume(w[e] >= vv[eu[e]] && w[e] >= vv[ev[e]]);
  int dmax = vp_fork_int(vp_int("dim", 1, N - 1));
  bool present[NS]; FV val[NS];
  for (int m = 1; m < NS; m++) { present[m] = pcnt(m) - 1 <= dmax; int mx = 0; for (int i = 0; i < N; i++) if ((m >> i & 1) && vv[i] > mx) mx = vv[i];
    for (int e = 0; e < NE; e++) if ((m >> eu[e] & 1) && (m >> ev[e] & 1)) { if (!w[e]) present[m] = false; else if (w[e] > mx) mx = w[e]; } val[m] = (FV)mx; }
  // ---- route 1: 1-skeleton then one-shot expansion
  ST a; for (int i = 0; i < N; i++) a.insert_simplex(word(1 << i), (FV)vv[i]);
  for (int e = 0; e < NE; e++) if (w[e]) a.insert_simplex(word(1 << eu[e] | 1 << ev[e]), (FV)w[e]);
  a.expansion(dmax); compare(a, present, val, "expansion: membership = cliques with at most d+1 vertices", "expansion: value = max over vertices and edges");
  vp_assert(a.dimension() <= dmax, "expansion respects the maximal dimension");
  // ---- route 2: blocker-driven expansion with an oracle that never blocks
  { ST b; for (int i = 0; i < N; i++) b.insert_simplex(word(1 << i), (FV)vv[i]); for (int e = 0; e < NE; e++) if (w[e]) b.insert_simplex(word(1 << eu[e] | 1 << ev[e]), (FV)w[e]);
    b.expansion_with_blockers(dmax, [](ST::Simplex_handle) { return false; }); compare(b, present, val, "never-blocking expansion: membership", "never-blocking expansion: value"); vp_assert(a == b, "one-shot and never-blocking expansions give equal trees"); }
#ifdef VP_BLOCK
  // ---- route 3: a blocking oracle = a symbolic set of vertex sets with >= 3 vertices; result = largest subcomplex of the clique complex with no blocked simplex
  { bool blocked[NS]; for (int m = 1; m < NS; m++) blocked[m] = pcnt(m) >= 3 && (VP_BLOCKMAX == 0 || pcnt(m) <= VP_BLOCKMAX) && vp_int("blk", 0, 1) != 0;
    ST b; for (int i = 0; i < N; i++) b.insert_simplex(word(1 << i), (FV)vv[i]); for (int e = 0; e < NE; e++) if (w[e]) b.insert_simplex(word(1 << eu[e] | 1 << ev[e]), (FV)w[e]);
    b.expansion_with_blockers(dmax, [&](ST::Simplex_handle sh) { int m = 0; for (auto v : b.simplex_vertex_range(sh)) for (int i = 0; i < N; i++) if (label[i] == v) m |= 1 << i; return blocked[m]; });
    bool p2[NS]; for (int m = 1; m < NS; m++) { p2[m] = present[m]; for (int s = 1; s < NS; s++) if ((s & m) == s && blocked[s]) p2[m] = false; }
    compare(b, p2, val, "blocking expansion: largest blocker-free subcomplex", "blocking expansion: value"); vp_reach("blockers"); }
#endif
#ifndef VP_NOEDGEFLAG
  // ---- route 4: edge by edge (insert_edge_as_flag), in filtration order or in a symbolic rotation of the edge list followed by the documented monotonisation
  { ST b; std::vector<ST::Simplex_handle> added; int nadded = 0, cnt = 0; for (int m = 1; m < NS; m++) if (present[m]) cnt++;
    int rot = vp_fork_int(vp_int("rot", 0, NE)); bool inorder = rot == NE;
    for (int i = 0; i < N; i++) { added.clear(); b.insert_edge_as_flag(label[i], label[i], (FV)vv[i], dmax, added); vp_assert(added.size() == 1, "a new vertex reports itself"); }
    if (inorder) { for (int lvl = 1; lvl <= VP_WMAX; lvl++) for (int e = 0; e < NE; e++) if (w[e] == lvl) { added.clear(); b.insert_edge_as_flag(label[eu[e]], label[ev[e]], (FV)w[e], dmax, added); nadded += (int)added.size(); } }
    else { for (int q = 0; q < NE; q++) { int e = (q + rot) % NE; if (w[e]) { added.clear(); b.insert_edge_as_flag(label[eu[e]], label[ev[e]], (FV)w[e], dmax, added); nadded += (int)added.size(); } } b.make_filtration_non_decreasing(); }
    compare(b, present, val, "edge-by-edge: membership", "edge-by-edge: value");
    vp_assert(nadded == cnt - N, "each insertion reports exactly the simplices it created"); vp_assert(a == b, "edge-by-edge and one-shot expansion give equal trees"); vp_reach(inorder ? "edges-in-order" : "edges-rotated"); }
#endif
#ifdef VP_RIPS
  // ---- route 5: Rips builder from a distance matrix: the graph of pairs within the threshold
  { std::vector<std::vector<double> > dm(N); for (int i = 0; i < N; i++) for (int j = 0; j < i; j++) { int e = 0; for (int q = 0; q < NE; q++) if (eu[q] == j && ev[q] == i) e = q; dm[i].push_back(w[e] ? (double)w[e] : (double)(VP_WMAX + 5)); }
    int thr = vp_fork_int(vp_int("thr", 0, VP_WMAX)); Gudhi::rips_complex::Rips_complex<double> rc(dm, (double)thr);
    Gudhi::Simplex_tree<> st; rc.create_complex(st, dmax);
    for (int m = 1; m < NS; m++) { bool in = pcnt(m) - 1 <= dmax; double mx = 0; for (int e = 0; e < NE; e++) if ((m >> eu[e] & 1) && (m >> ev[e] & 1)) { double dd = w[e] ? (double)w[e] : (double)(VP_WMAX + 5); if (dd > (double)thr) in = false; if (dd > mx) mx = dd; }
      std::vector<int> ww; for (int i = 0; i < N; i++) if (m >> i & 1) ww.push_back(i); auto sh = st.find(ww); vp_assert((sh != st.null_simplex()) == in, "Rips: cliques of the threshold graph"); if (in && sh != st.null_simplex()) vp_assert(st.filtration(sh) == mx, "Rips: value = diameter"); }
    vp_reach("rips"); }
#endif
  vp_reach("end");
}
