// C20: permutahedral representation - consistent face lattice; Freudenthal triangulation - exact point location.
// Symbolic: base vertex, the ordered set partition (index into the generated list of all ordered partitions of {0..d}), the query point on a grid.
#include "vp.h"
#define EIGEN_DONT_VECTORIZE 1
#include <gudhi/Permutahedral_representation.h>
#include <gudhi/Freudenthal_triangulation.h>
#include <vector>
#include <algorithm>
#ifndef VP_D
#define VP_D 2
#endif
typedef std::vector<int> Vtx; typedef std::vector<std::size_t> Part; typedef std::vector<Part> OSP;
typedef Gudhi::coxeter_triangulation::Permutahedral_representation<Vtx, OSP> PR;
static std::vector<OSP> all_partitions;
static void gen(std::vector<int>& assign, int i, int nparts) {   // surjections {0..d} -> {0..nparts-1} = ordered partitions with nparts parts
  if (i == (int)assign.size()) { std::vector<bool> used(nparts, false); for (int a : assign) used[a] = true; for (bool u : used) if (!u) return;
    if (assign.back() != nparts - 1) return;   // canonical representation: the last part holds the index d (the base vertex is the smallest vertex)
    OSP p(nparts); for (int k = 0; k < (int)assign.size(); k++) p[assign[k]].push_back(k); all_partitions.push_back(p); return; }
  for (int a = 0; a < nparts; a++) { assign[i] = a; gen(assign, i + 1, nparts); }
}
static bool same_vtx(const Vtx& a, const Vtx& b) { if (a.size() != b.size()) return false; for (size_t i = 0; i < a.size(); i++) if (a[i] != b[i]) return false; return true; }
static bool subset(const std::vector<Vtx>& a, const std::vector<Vtx>& b) { for (auto& x : a) { bool in = false; for (auto& y : b) if (same_vtx(x, y)) in = true; if (!in) return false; } return true; }
static std::vector<Vtx> verts_of(const PR& s) { std::vector<Vtx> r; for (auto v : s.vertex_range()) r.push_back(v); return r; }
extern "C" void harness() {
  const int d = VP_D;
  { std::vector<int> assign(d + 1); for (int np = 1; np <= d + 1; np++) gen(assign, 0, np); }
#ifndef VP_LOCATE
  PR s; for (int i = 0; i < d; i++) s.vertex().push_back(vp_int("x", -1, 1));
  int k = vp_fork_int(vp_int("part", 0, (int)all_partitions.size() - 1)); s.partition() = all_partitions[k];
  int dim = (int)s.dimension(); vp_assert(dim == (int)s.partition().size() - 1, "dimension = number of parts - 1");
  std::vector<Vtx> verts = verts_of(s);
  vp_assert((int)verts.size() == dim + 1, "dimension+1 vertices");
  for (size_t a = 0; a < verts.size(); a++) for (size_t b = a + 1; b < verts.size(); b++) vp_assert(!same_vtx(verts[a], verts[b]), "vertices are distinct");
  for (int fd = 0; fd <= dim; fd++) { int nf = 0; std::vector<std::vector<Vtx> > seen;
    for (auto f : s.face_range(fd)) { nf++; vp_assert((int)f.dimension() == fd, "face has the requested dimension"); auto fv = verts_of(f); vp_assert((int)fv.size() == fd + 1 && subset(fv, verts), "face = a vertex subset of the simplex");
      vp_assert(f.is_face_of(s), "every enumerated face is recognised by is_face_of");
      for (auto& o : seen) vp_assert(!(subset(o, fv) && subset(fv, o)), "faces are listed once"); seen.push_back(fv); }
    int binom = 1; for (int i = 0; i <= fd; i++) binom = binom * (dim + 1 - i) / (i + 1);
    vp_assert(nf == binom, "the k-faces are exactly the (dim+1 choose k+1) vertex subsets"); }
  if (dim >= 1) { int nfc = 0; for (auto f : s.facet_range()) { nfc++; vp_assert((int)f.dimension() == dim - 1 && subset(verts_of(f), verts), "facet_range"); } vp_assert(nfc == dim + 1, "number of facets"); }
  // completeness of the coface enumeration: the cd-cofaces of s are the refinements of its ordered partition into cd+1 parts, i.e.
  // sum over (k_0..k_dim), k_i >= 1, sum k_i = cd+1, of prod_i k_i! * S(|part_i|, k_i)  (S = Stirling numbers of the second kind); listed once each
  long surj[8][8]; for (int a = 0; a < 8; a++) for (int b = 0; b < 8; b++) surj[a][b] = 0; surj[0][0] = 1;
  for (int a = 1; a < 8; a++) for (int b = 1; b <= a; b++) surj[a][b] = b * (surj[a - 1][b] + surj[a - 1][b - 1]);   // surj[a][b] = b! * S(a,b): ordered partitions of a elements into b blocks
  for (int cd = dim; cd <= d; cd++) { long ways[8][8]; for (int i = 0; i < 8; i++) for (int t = 0; t < 8; t++) ways[i][t] = 0; ways[0][0] = 1;
    for (int i = 0; i <= dim; i++) { int a = (int)s.partition()[i].size(); for (int t = 0; t <= cd + 1; t++) if (ways[i][t]) for (int kk = 1; kk <= a && t + kk <= cd + 1; kk++) ways[i + 1][t + kk] += ways[i][t] * surj[a][kk]; }
    long expect = ways[dim + 1][cd + 1], got = 0; std::vector<std::vector<Vtx> > seenc;
    for (auto c : s.coface_range(cd)) { auto cv = verts_of(c); for (auto& o : seenc) vp_assert(!(subset(o, cv) && subset(cv, o)), "cofaces are listed once"); seenc.push_back(cv); got++; }
    vp_assert(got == expect, "coface_range lists every coface (all refinements of the ordered partition)"); }
  for (int cd = dim; cd <= d; cd++) { for (auto c : s.coface_range(cd)) { vp_assert((int)c.dimension() == cd, "coface has the requested dimension"); auto cv = verts_of(c); vp_assert(subset(verts, cv), "every enumerated coface contains the simplex");
      vp_assert(s.is_face_of(c), "the simplex is recognised as a face of each coface");
      bool listed = false; for (auto f : c.face_range(dim)) { auto fv = verts_of(f); if (subset(fv, verts) && subset(verts, fv)) listed = true; } vp_assert(listed, "a simplex is a coface of another exactly when the other is listed among its faces"); } }
  if (dim < d) { int nc = 0; for (auto c : s.cofacet_range()) { nc++; vp_assert((int)c.dimension() == dim + 1 && subset(verts, verts_of(c)), "cofacet_range"); } vp_assert(nc > 0, "a non-maximal simplex has cofacets"); }
#ifndef VP_NO_SECOND
  { // is_face_of is exact on a second symbolic simplex with the same base vertex neighbourhood
    PR t; for (int i = 0; i < d; i++) t.vertex().push_back(s.vertex()[i] + vp_int("dx", -1, 1)); int k2 = vp_fork_int(vp_int("part2", 0, (int)all_partitions.size() - 1)); t.partition() = all_partitions[k2];
    vp_assert(s.is_face_of(t) == subset(verts, verts_of(t)), "is_face_of <=> vertex set inclusion"); }
#endif
#else
  Gudhi::coxeter_triangulation::Freudenthal_triangulation<PR> tr(d);
  std::vector<double> p; int p4[4];
  for (int i = 0; i < d; i++) { p4[i] = vp_fork_int(vp_int("p", -4, 4)); p.push_back(p4[i] / 4.0); }   // grid {-1,-3/4,...,1}: hits faces of every dimension and equal fractional parts
#ifdef VP_OFFSET   /* affine transformation with a non-trivial offset (multiples of 1/4), set after construction or through the constructor */
  int o4[4]; { Eigen::VectorXd off(d); for (int i = 0; i < d; i++) { o4[i] = vp_fork_int(vp_int("off", 0, 3)); off(i) = o4[i] / 4.0; }
    if (vp_fork_int(vp_int("how", 0, 1))) tr.change_offset(off); else tr = Gudhi::coxeter_triangulation::Freudenthal_triangulation<PR>(d, Eigen::MatrixXd::Identity(d, d), off); }
  for (int i = 0; i < d; i++) p4[i] -= o4[i];   // the oracle below works in the coordinates of the untranslated triangulation
#endif
  PR s = tr.locate_point(p);
  // exact characterisation of "p lies in the relative interior of s": p - vertex is constant on each part, strictly decreasing from part to part, in [0,1), zero on the last part (which holds the index d)
  vp_assert((int)s.vertex().size() == d, "located simplex lives in dimension d");
  int npart = (int)s.partition().size(); int prev = 4; bool ok = true, seen[8] = {false, false, false, false, false, false, false, false};
  for (int m = 0; m < npart; m++) { int mu = -100; for (auto j : s.partition()[m]) { if (j > (std::size_t)d || seen[j]) { ok = false; continue; } seen[j] = true; int zz = j == (std::size_t)d ? 0 : p4[j] - 4 * s.vertex()[j]; if (mu == -100) mu = zz; else if (mu != zz) ok = false; }
    if (mu == -100 || mu >= prev || mu < 0) ok = false; prev = mu; if (m == npart - 1) { bool hasd = false; for (auto j : s.partition()[m]) if (j == (std::size_t)d) hasd = true; if (!hasd || mu != 0) ok = false; } }
  for (int j = 0; j <= d; j++) if (!seen[j]) ok = false;
  vp_assert(ok, "the point is a convex combination of the returned vertices with all weights > 0 (relative interior)");
  { auto b = tr.barycenter(s); auto verts = verts_of(s); for (int i = 0; i < d; i++) { double sum = 0; for (auto& v : verts) sum += v[i]; 
#ifdef VP_OFFSET
      sum += verts.size() * (o4[i] / 4.0);
#endif
      { double df = b(i) * (double)verts.size() - sum; vp_assert(df <= 1e-12 && df >= -1e-12, "barycenter = mean of the vertices (Freudenthal: Cartesian coordinates = integer coordinates + offset; thirds are not dyadic: 1e-12)"); } } }
#endif
  vp_reach("end");
}
