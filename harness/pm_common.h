// Shared by C05/C06/C08: symbolic filtered sub-complex of the simplex on VP_NV vertices, dense Z_p oracle, option plumbing.
#pragma once
#include "vp.h"
#include <gudhi/Matrix.h>
#include <gudhi/persistence_matrix_options.h>
#include <vector>
#include <utility>
#ifndef VP_M
#define VP_M 4
#endif
#ifndef VP_NV
#define VP_NV 3
#endif
#ifndef VP_COL
#define VP_COL INTRUSIVE_SET
#endif
#ifndef VP_Z2
#define VP_Z2 1
#endif
#ifndef VP_P
#define VP_P 5
#endif
#ifndef VP_FLAVOUR
#define VP_FLAVOUR 0     // 0 boundary (R only), 1 RU, 2 chain
#endif
#ifndef VP_IDX
#define VP_IDX 0         // 0 container, 1 position, 2 identifier
#endif
#ifndef VP_ROWS
#define VP_ROWS 0
#endif
#ifndef VP_REMOVABLE
#define VP_REMOVABLE 0
#endif
#ifndef VP_VINE
#define VP_VINE 0
#endif
#ifndef VP_REP
#define VP_REP 0
#endif
#ifndef VP_BARCODE
#define VP_BARCODE 1
#endif
#ifndef VP_MAPC
#define VP_MAPC VP_REMOVABLE   // map column container (needed by remove_maximal_cell); 0 with removable columns = vector container, remove_last only
#endif
using namespace Gudhi::persistence_matrix;
struct Opt : Default_options<Column_types::VP_COL, VP_Z2 != 0> {
  static const bool has_column_pairings = VP_BARCODE != 0; static const bool is_of_boundary_type = VP_FLAVOUR != 2;
  static const bool has_vine_update = VP_VINE != 0; static const bool can_retrieve_representative_cycles = VP_REP != 0;
  static const Column_indexation_types column_indexation_type = VP_IDX == 0 ? Column_indexation_types::CONTAINER : VP_IDX == 1 ? Column_indexation_types::POSITION : Column_indexation_types::IDENTIFIER;
  static const bool has_row_access = VP_ROWS != 0; static const bool has_intrusive_rows = VP_ROWS != 2; static const bool has_removable_rows = VP_ROWS != 0 && VP_REMOVABLE != 0;
  static const bool has_removable_columns = VP_REMOVABLE != 0; static const bool has_map_column_container = VP_MAPC != 0;
};
typedef Matrix<Opt> Mat;
enum { M = VP_M, NSUB = 1 << VP_NV, MOD = VP_Z2 ? 2 : VP_P };
static int cell[M];          // vertex-set mask of the cell at each position
static int unit[M];          // scalar applied to the boundary of each cell (general cells; 1 = simplicial)
static int ncell;            // current number of cells
static bool zeroed[VP_M];    // VP_CW: general (non-simplicial) cell of dimension > 0 attached with a null boundary (a loop, a sphere): only for cells without cofaces
static int pc(int m) { return __builtin_popcount(m); }
static int inv_mod(int a) { a %= MOD; for (int x = 1; x < MOD; x++) if (a * x % MOD == 1) return x; return 0; }
// dense boundary matrix of the current filtration: D[row][col], signs from the vertex order
static void dense_boundary(int D[M][M], int n) {
  int pos[NSUB]; for (int s = 0; s < NSUB; s++) pos[s] = -1; for (int i = 0; i < n; i++) pos[cell[i]] = i;
  for (int i = 0; i < M; i++) for (int j = 0; j < M; j++) D[i][j] = 0;
  for (int j = 0; j < n; j++) { int m = cell[j]; if (pc(m) < 2 || zeroed[j]) continue; int k = 0;
    for (int v = 0; v < VP_NV; v++) if (m >> v & 1) { int f = m & ~(1 << v); int sgn = (k & 1) ? MOD - 1 : 1; D[pos[f]][j] = (sgn * unit[j]) % MOD; k++; } }
}
// textbook left-to-right column reduction over Z_MOD. low[j] = pivot row or -1; pairOf[i] = partner or -1. Optionally returns R and U with R = D*U.
static void reduce(const int D[M][M], int n, int* low, int* pairOf, int R[M][M], int U[M][M]) {
  for (int i = 0; i < M; i++) for (int j = 0; j < M; j++) { R[i][j] = D[i][j]; U[i][j] = i == j; }
  for (int j = 0; j < n; j++) pairOf[j] = -1;
  for (int j = 0; j < n; j++) {
    while (true) { int l = -1; for (int r = n - 1; r >= 0; r--) if (R[r][j]) { l = r; break; } low[j] = l; if (l < 0) break;
      int k = -1; for (int q = 0; q < j; q++) if (low[q] == l) { k = q; break; } if (k < 0) break;
      int c = R[l][j] * inv_mod(R[l][k]) % MOD; for (int r = 0; r < n; r++) { R[r][j] = ((R[r][j] - c * R[r][k]) % MOD + MOD) % MOD; U[r][j] = ((U[r][j] - c * U[r][k]) % MOD + MOD) % MOD; } }
    if (low[j] >= 0) { pairOf[low[j]] = j; pairOf[j] = low[j]; } }
}
// symbolic filtration: position by position, a not-yet-used simplex all of whose facets are already present
static void choose_filtration() {
  bool used[NSUB]; for (int i = 0; i < NSUB; i++) used[i] = false;
#ifdef VP_PREFIX_CONE   /* the first 7 cells are fixed: four vertices and the three edges of the cone from vertex 3 (a spanning tree); the solver chooses the rest, so that cells whose boundary meets several unpaired chains appear within few symbolic cells */
  static const int prefix_cells[7] = {1, 2, 4, 8, 9, 10, 12};
#endif
  for (int i = 0; i < M; i++) { int m = vp_int("cell", 1, NSUB - 1);
#ifdef VP_PREFIX_CONE
    if (i < 7) vp_assume(m == prefix_cells[i]);
#endif
#ifdef VP_FORKCELL   /* one path per concrete filtration (enumerated by the solver): for the larger units, where a symbolic cell makes every later query expensive */
    m = vp_fork_int(m);
#endif
    vp_assume(!used[m]);
#ifdef VP_MAXDIM   /* only cells of dimension <= VP_MAXDIM (graphs for 1) */
    vp_assume(pc(m) <= VP_MAXDIM + 1);
#endif
    for (int s = 1; s < NSUB; s++) if ((s & m) == s && s != m) vp_assume(used[s]); used[m] = true; cell[i] = m;
#if defined(VP_UNITS) && !VP_Z2
    unit[i] = pc(m) > 1 ? vp_fork_int(vp_int("unit", 1, MOD - 1)) : 1;
#else
    unit[i] = 1;
#endif
  }
  for (int i = 0; i < M; i++) zeroed[i] = false;
#ifdef VP_CW
  for (int i = 0; i < M; i++) if (pc(cell[i]) > 1) { zeroed[i] = vp_fork_int(vp_int("nullbd", 0, 1)) != 0; if (zeroed[i]) for (int q = 0; q < M; q++) if (q != i) vp_assume((cell[q] & cell[i]) != cell[i]); }
#endif
}
#if VP_Z2
typedef std::vector<unsigned> Bd;
#else
typedef std::vector<std::pair<unsigned, unsigned> > Bd;
#endif
// boundary of the cell at position j, rows given as positions (= identifiers here), sorted by row
static Bd boundary_of(int j) {
  int D[M][M]; dense_boundary(D, j + 1); Bd b;
  for (int r = 0; r <= j; r++) if (D[r][j]) {
#if VP_Z2
    b.push_back((unsigned)r);
#else
    b.push_back({(unsigned)r, (unsigned)D[r][j]});
#endif
  }
  return b;
}
#ifdef VP_IDS
// identifiers increasing along the filtration but with solver-chosen gaps (0..1): positions and identifiers differ; a cell inserted after a removal may reuse an identifier
static int cellId[M];
static void insert_cell(Mat& mat, int j) {
  cellId[j] = (j ? cellId[j - 1] : -1) + 1 + vp_fork_int(vp_int("idgap", 0, 1)); Bd b = boundary_of(j), bi;
  for (auto& e : b) {
#if VP_Z2
    bi.push_back((unsigned)cellId[e]);
#else
    bi.push_back({(unsigned)cellId[e.first], e.second});
#endif
  }
  mat.insert_boundary((unsigned)cellId[j], bi, pc(cell[j]) - 1);
}
#else
static void insert_cell(Mat& mat, int j) { mat.insert_boundary(boundary_of(j), pc(cell[j]) - 1); }
#endif
#if VP_BARCODE
// barcode (positions) == oracle pairs
static void check_barcode(Mat& mat, int n, const char* lbl_pair, const char* lbl_count) {
  int D[M][M], R[M][M], U[M][M], low[M], pairOf[M]; dense_boundary(D, n); reduce(D, n, low, pairOf, R, U);
  const auto& bc = mat.get_current_barcode(); int nb = 0; bool seenb[M]; for (int i = 0; i < M; i++) seenb[i] = false;
  for (auto& bar : bc) { nb++; int b = (int)bar.birth; bool inf = bar.death == Mat::template get_null_value<typename Mat::Pos_index>();
    vp_assert(b >= 0 && b < n && !seenb[b < 0 || b >= n ? 0 : b], "bar birth is a position, listed once"); if (b < 0 || b >= n) continue; seenb[b] = true;
    if (inf) vp_assert(pairOf[b] == -1 && low[b] < 0, lbl_pair); else vp_assert((int)bar.death < n && pairOf[b] == (int)bar.death && low[(int)bar.death < n ? bar.death : 0] == b, lbl_pair);
    vp_assert(bar.dim == pc(cell[b]) - 1, "bar dimension"); }
  int exp = 0; for (int j = 0; j < n; j++) if (low[j] < 0) exp++;
  vp_assert(nb == exp, lbl_count);
}
#endif

#ifdef VP_NEED_IDENT
static int idAtPos[M];      // identifier (= insertion number) of the cell at each position; identity until a vine swap moves cells
static int colkey(int pos) { return VP_IDX == 2 ? idAtPos[pos] : pos; }
static int rowkey(int pos) { return VP_FLAVOUR == 2 ? idAtPos[pos] : pos; }   // chain rows are identifiers; boundary/RU rows move with the cells (positions)   // how a column is addressed: by position, or by identifier
static void check_identities(Mat& mat, int n) {
  int nid = 0; for (int i = 0; i < n; i++) if (idAtPos[i] + 1 > nid) nid = idAtPos[i] + 1;
  int D[M][M], Ro[M][M], Uo[M][M], low[M], pairOf[M]; dense_boundary(D, n); reduce(D, n, low, pairOf, Ro, Uo);
  int C[M][M];   // what the matrix exposes as column j (R for boundary/RU, the chain for the chain flavour)
  for (int j = 0; j < n; j++) { auto cont = mat.get_column(colkey(j)).get_content(nid); for (int r = 0; r < n; r++) C[r][j] = (int)cont[rowkey(r)]; }
  bool pivUsed[M]; for (int i = 0; i < M; i++) pivUsed[i] = false;
  for (int j = 0; j < n; j++) { int l = -1; for (int r = n - 1; r >= 0; r--) if (C[r][j]) { l = r; break; }
#if VP_FLAVOUR == 2
    vp_assert(l >= 0, "chain columns are never empty");
#endif
    if (l >= 0) { vp_assert(!pivUsed[l], "non-zero columns have distinct lowest entries"); pivUsed[l] = true; }
#if VP_FLAVOUR != 0 || 1
    { auto p = mat.get_pivot(colkey(j)); if (l >= 0) vp_assert((int)p == rowkey(l), "get_pivot is the lowest non-zero row"); else vp_assert(p == Mat::template get_null_value<typename Mat::ID_index>(), "get_pivot of a zero column is the null index"); }
#endif
    vp_assert(mat.is_zero_column(colkey(j)) == (l < 0), "is_zero_column"); vp_assert(mat.get_column_dimension(colkey(j)) == pc(cell[j]) - 1, "get_column_dimension");
#if VP_FLAVOUR == 1 || VP_FLAVOUR == 2
    if (l >= 0) vp_assert((int)mat.get_column_with_pivot(rowkey(l)) == colkey(j), "get_column_with_pivot maps the pivot back to its column");
#endif
  }
#if VP_FLAVOUR == 0 || VP_FLAVOUR == 1
  // R is a reduction of D: same pivots as the oracle (the reduced matrix is not unique, its pivot pairing is)
  for (int j = 0; j < n; j++) { int l = -1; for (int r = n - 1; r >= 0; r--) if (C[r][j]) { l = r; break; } vp_assert(l == low[j], "pivot of R equals the pivot of an independent reduction"); }
#endif
#if VP_FLAVOUR == 1 && VP_IDX != 2   /* U is not exposed with identifier indexation */
  { int Um[M][M]; for (int j = 0; j < n; j++) { auto cont = mat.get_column(colkey(j), false).get_content(nid); for (int r = 0; r < n; r++) Um[r][j] = (int)cont[rowkey(r)]; }
    // the factor may be exposed as stored, i.e. transposed (column j of the stored matrix = row j of U) and/or as the inverse: accept U or U^T upper triangular
    bool triU = true, triT = true; for (int j = 0; j < n; j++) { if (Um[j][j] == 0) triU = triT = false; for (int r = j + 1; r < n; r++) { if (Um[r][j]) triU = false; if (Um[j][r]) triT = false; } }
    vp_assert(triU || triT, "U is triangular with a non-zero diagonal");
    bool f1 = true, f2 = true, f3 = true, f4 = true;   // R = D*U, D = R*U, R = D*U^T, D = R*U^T
    for (int j = 0; j < n; j++) for (int r = 0; r < n; r++) { int a = 0, b = 0, c = 0, d = 0; for (int k = 0; k < n; k++) { a = (a + D[r][k] * Um[k][j]) % MOD; b = (b + C[r][k] * Um[k][j]) % MOD; c = (c + D[r][k] * Um[j][k]) % MOD; d = (d + C[r][k] * Um[j][k]) % MOD; }
      if (a != C[r][j]) f1 = false; if (b != D[r][j]) f2 = false; if (c != C[r][j]) f3 = false; if (d != D[r][j]) f4 = false; }
    vp_assert(((f1 || f2) && triU) || ((f3 || f4) && triT), "R and U factor the boundary matrix"); }
#endif
#if VP_FLAVOUR == 2
  // chain basis: unpaired chains are cycles, the boundary of a paired (death) chain is a non-zero multiple of its partner
  for (int j = 0; j < n; j++) { int bd[M]; for (int r = 0; r < n; r++) { bd[r] = 0; for (int k = 0; k < n; k++) bd[r] = (bd[r] + D[r][k] * C[k][j]) % MOD; }
    // which chain has leading cell j: the column with pivot j
    int lead = -1; for (int r = n - 1; r >= 0; r--) if (C[r][j]) { lead = r; break; }
    if (lead < 0) continue;
    if (pairOf[lead] == -1 || pairOf[lead] > lead) { bool z = true; for (int r = 0; r < n; r++) if (bd[r]) z = false; vp_assert(z, "chain of an unpaired or birth cell is a cycle"); }
    else { int b = pairOf[lead]; int cb = -1; for (int q = 0; q < n; q++) { int lq = -1; for (int r = n - 1; r >= 0; r--) if (C[r][q]) { lq = r; break; } if (lq == b) cb = q; }
      vp_assert(cb >= 0, "partner chain exists"); if (cb < 0) continue; int lam = 0; for (int r = 0; r < n; r++) if (C[r][cb]) { lam = bd[r] * inv_mod(C[r][cb]) % MOD; break; }
      bool ok = lam != 0; for (int r = 0; r < n; r++) if (bd[r] != lam * C[r][cb] % MOD) ok = false; vp_assert(ok, "the boundary sends a paired chain onto its partner"); } }
#endif
}
#endif
