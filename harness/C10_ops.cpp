// C10: stateless *operator* classes and the cohomology Field_Zp compute exact arithmetic modulo M.
// VP_KIND: 1 Zp_field_operators<>(VP_P), 2 Z2_field_operators, 3 Multi_field_operators_with_small_characteristics(VP_LO,VP_HI), 4 cohomology Field_Zp (init(VP_P))
#include "vp.h"
#include <cstdint>
#include <cassert>
#include <stdexcept>
#include <vector>
#include <utility>
#include <gudhi/Fields/Zp_field_operators.h>
#include <gudhi/Fields/Z2_field_operators.h>
#include <gudhi/Fields/Multi_field_small_operators.h>
#include <gudhi/Persistent_cohomology/Field_Zp.h>
using namespace Gudhi::persistence_fields;
#ifndef VP_P
#define VP_P 5
#endif
#ifndef VP_LO
#define VP_LO 2
#endif
#ifndef VP_HI
#define VP_HI 5
#endif
static const unsigned all_primes[] = {2, 3, 5, 7, 11, 13, 17, 19, 23, 29, 31};
static unsigned prodrange() { unsigned m = 1; for (unsigned p : all_primes) if (p >= VP_LO && p <= VP_HI) m *= p; return m; }
#if VP_KIND == 1
static const unsigned M = VP_P; typedef Zp_field_operators<> Ops; static Ops mk() { return Ops(VP_P); }
#define VP_FIELD 1
#elif VP_KIND == 2
static const unsigned M = 2; typedef Z2_field_operators Ops; static Ops mk() { return Ops(); }
#define VP_FIELD 1
#elif VP_KIND == 3
static const unsigned M = prodrange(); typedef Multi_field_operators_with_small_characteristics Ops; static Ops mk() { return Ops(VP_LO, VP_HI); }
#define VP_FIELD 0
#else
static const unsigned M = VP_P;
#endif
#if VP_KIND == 2
typedef unsigned IPT;   // Z2 in-place operations are templates on the integer type
#elif VP_KIND != 4
typedef Ops::Element IPT;
#endif
static unsigned rs(int s) { int m = s % (int)M; if (m < 0) m += (int)M; return (unsigned)m; }
static unsigned addm(unsigned x, unsigned y) { unsigned t = x + y; while (t >= M) t -= M; return t; }
static unsigned mulm(unsigned x, unsigned y) { return (unsigned)(((uint64_t)x * y) % M); }
static unsigned wide_u(const char* n) {
  static const unsigned base[] = {0u, 65536u, 0x7fffffffu - 2 * M, 0x80000000u, 0xffffffffu - (4 * M + 2)};
  int k = vp_fork_int(vp_int(n, 0, 4)), d = vp_fork_int(vp_int(n, 0, (int)(4 * M + 2))); return base[k] + (unsigned)d;
}
static int wide_s(const char* n) {
  static const int base[] = {-(int)(2 * M + 1), 65536, 2147483647 - (int)(4 * M + 2), -2147483647 - 1, -65536 - (int)(2 * M)};
  int k = vp_fork_int(vp_int(n, 0, 4)), d = vp_fork_int(vp_int(n, 0, (int)(4 * M + 2))); return base[k] + d;
}
extern "C" void harness() {
#if VP_KIND != 4
  Ops op = mk();
  vp_assert((unsigned)op.get_characteristic() == M, "characteristic");
  int law = vp_int("law", 0, 5);
  if (law == 0) {        // get_value
#if VP_KIND != 3
    if (vp_fork_int(vp_int("signed", 0, 1))) { int s = wide_s("s"); vp_assert((unsigned)op.get_value(s) == rs(s), "get_value(signed)"); } else
#endif
    { unsigned u = wide_u("u"); vp_assert((unsigned)op.get_value(u) == u % M, "get_value(unsigned)"); }
    vp_reach("conv");
  } else if (law == 1) { // add / subtract on unreduced operands: one wide (covers the UINT_MAX wrap branch of _add), one from a boundary set
    unsigned a = wide_u("a"); static const unsigned bset[] = {0u, 1u, M - 1, M, M + 1, 0x7fffffffu, 0x80000000u, 0xfffffffeu, 0xffffffffu, 0xffffffffu - M, 65537u};
    unsigned b = bset[vp_fork_int(vp_int("bi", 0, 10))]; unsigned ra = a % M, rb = b % M;
    vp_assert((unsigned)op.add(a, b) == addm(ra, rb), "add"); vp_assert((unsigned)op.subtract(a, b) == addm(ra, M - rb), "subtract"); vp_assert((unsigned)op.subtract(b, a) == addm(rb, M - ra), "subtract (swapped)");
    { IPT x = a; op.add_inplace(x, b); vp_assert((unsigned)x == addm(ra, rb), "add_inplace"); }
    { IPT x = a; op.subtract_inplace_front(x, b); vp_assert((unsigned)x == addm(ra, M - rb), "subtract_inplace_front"); }
    { IPT y = b; op.subtract_inplace_back(a, y); vp_assert((unsigned)y == addm(ra, M - rb), "subtract_inplace_back"); }
    vp_assert(op.are_equal(a, b) == (ra == rb), "are_equal by residue");
    vp_reach("addsub");
  } else if (law == 2) { // multiply: reduced pairs exhaustively (solver-forked), plus unreduced representatives
    unsigned ra = (unsigned)vp_fork_int(vp_int("a", 0, (int)M - 1)), rb = (unsigned)vp_fork_int(vp_int("b", 0, (int)M - 1)); int qi = vp_fork_int(vp_int("q", 0, 2));
    unsigned qmax = (0xffffffffu - rb) / M, b = rb + (qi == 0 ? 0 : qi == 1 ? 1 : qmax) * M, qa = (0xffffffffu - ra) / M, a = ra + (qi == 2 ? qa : 0) * M;
    vp_assert((unsigned)op.multiply(a, b) == mulm(ra, rb), "multiply");
    { IPT x = a; op.multiply_inplace(x, b); vp_assert((unsigned)x == mulm(ra, rb), "multiply_inplace"); }
    vp_reach("mul");
  } else if (law == 3) { // fused operations on reduced operands (documented: not overflow safe)
    unsigned e = (unsigned)vp_fork_int(vp_int("e", 0, (int)M - 1)), m = (unsigned)vp_fork_int(vp_int("m", 0, (int)M - 1)), a = (unsigned)vp_fork_int(vp_int("a", 0, (int)M - 1));
    vp_assert((unsigned)op.multiply_and_add(e, m, a) == addm(mulm(e, m), a), "multiply_and_add");
    vp_assert((unsigned)op.add_and_multiply(e, a, m) == mulm(addm(e, a), m), "add_and_multiply");
    { IPT x = e; op.multiply_and_add_inplace_front(x, m, a); vp_assert((unsigned)x == addm(mulm(e, m), a), "multiply_and_add_inplace_front"); }
    { IPT x = a; op.multiply_and_add_inplace_back(e, m, x); vp_assert((unsigned)x == addm(mulm(e, m), a), "multiply_and_add_inplace_back"); }
    { IPT x = e; op.add_and_multiply_inplace_front(x, a, m); vp_assert((unsigned)x == mulm(addm(e, a), m), "add_and_multiply_inplace_front"); }
    vp_reach("fused");
  } else if (law == 4) { // inverse
    unsigned ra = (unsigned)vp_fork_int(vp_int("a", 0, (int)M - 1)); int qi = vp_fork_int(vp_int("q", 0, 1)); unsigned a = ra + (qi ? ((0xffffffffu - ra) / M) * M : 0);
    unsigned inv = (unsigned)op.get_inverse(a);
#if VP_FIELD
    if (ra != 0) vp_assert(mulm(ra, inv % M) == 1, "x * inverse(x) == 1"); vp_assert(inv < M, "inverse reduced");
#else
    for (unsigned p : all_primes) if (p >= VP_LO && p <= VP_HI) { if (ra % p != 0) vp_assert((inv % p) * (ra % p) % p == 1, "inverse modulo each prime where x is invertible"); else vp_assert(inv % p == 0, "zero modulo the primes dividing x"); }
#endif
    vp_reach("inv");
  } else {               // partial inverse / identity
#if VP_FIELD
    unsigned ra = (unsigned)vp_fork_int(vp_int("a", 1, (int)M - 1)); auto r = op.get_partial_inverse(ra, M); vp_assert(mulm(ra, (unsigned)r.first) == 1 && (unsigned)r.second == M, "partial inverse in a field");
    vp_assert((unsigned)op.get_partial_multiplicative_identity(M) == 1 % M, "partial identity in a field");
#else
    unsigned Q = 1; for (unsigned p : all_primes) if (p >= VP_LO && p <= VP_HI) { if (vp_fork_int(vp_int("inQ", 0, 1))) Q *= p; }
    vp_assume(Q > 1); unsigned a = (unsigned)vp_fork_int(vp_int("a", 0, (int)M - 1)); auto r = op.get_partial_inverse(a, Q); unsigned inv = r.first, T = r.second;
    unsigned expT = 1; for (unsigned p : all_primes) if (p >= VP_LO && p <= VP_HI && Q % p == 0 && a % p != 0) expT *= p;
    vp_assert(T == expT, "T is the sub-product of Q where x is invertible");
    for (unsigned p : all_primes) if (p >= VP_LO && p <= VP_HI) { if (expT % p == 0) vp_assert((inv % p) * (a % p) % p == 1, "partial inverse modulo a prime of T"); else vp_assert(inv % p == 0, "partial inverse is 0 modulo the other primes"); }
    unsigned id = op.get_partial_multiplicative_identity(Q);
    for (unsigned p : all_primes) if (p >= VP_LO && p <= VP_HI) vp_assert(id % p == (Q % p == 0 ? 1 % p : 0), "partial multiplicative identity");
#endif
    vp_reach("pinv");
  }
#else
  Gudhi::persistent_cohomology::Field_Zp F; F.init(VP_P);
  vp_assert(F.characteristic() == VP_P && F.additive_identity() == 0 && F.multiplicative_identity() == 1, "Field_Zp constants");
  // operands are residues in [0,p): fully symbolic (three ints), the code is straight-line
  int x = vp_int("x", 0, VP_P - 1), y = vp_int("y", 0, VP_P - 1), w = vp_int("w", 0, VP_P - 1);
  vp_assert(F.plus_times_equal(x, y, w) == (int)(((long long)x + (long long)w * y) % VP_P), "x + w*y mod p");
  vp_assert(F.times(y, w) == (int)(((long long)w * y) % VP_P), "y*w mod p");
  vp_assert(F.plus_equal(x, y) == (x + y) % VP_P, "x+y mod p");
  vp_assert(F.times_minus(x, y) == (int)(((VP_P - ((long long)x * y) % VP_P)) % VP_P), "-x*y mod p");
  int xi = vp_fork_int(x); if (xi != 0) { auto r = F.inverse(xi, VP_P); vp_assert((long long)r.first * xi % VP_P == 1 && r.second == VP_P, "x * inverse(x) == 1"); }
#endif
  vp_reach("end");
}
