// C15 (Simplex_tree): copies, moves, swaps and serialisation round-trip to equal, independent objects; wrong buffer lengths are refused.
#include "vp.h"
#include <gudhi/Simplex_tree.h>
#include <vector>
#include <cstdlib>
#include <cstring>
#include <utility>
#ifndef VP_OPT
#define VP_OPT 0
#endif
#ifndef VP_N
#define VP_N 3
#endif
#if VP_OPT == 0
typedef Gudhi::Simplex_tree_options_default Opts;
#elif VP_OPT == 1
typedef Gudhi::Simplex_tree_options_full_featured Opts;
#elif VP_OPT == 2
typedef Gudhi::Simplex_tree_options_fast_persistence Opts;
#else
typedef Gudhi::Simplex_tree_options_minimal Opts;
#endif
typedef Gudhi::Simplex_tree<Opts> ST; typedef ST::Filtration_value FV;
enum { N = VP_N, NS = 1 << VP_N };
struct Model { bool present[NS]; FV filt[NS]; };
static std::vector<int> word(int m) { std::vector<int> w; for (int i = 0; i < N; i++) if (m >> i & 1) w.push_back(i); return w; }
static void clear(Model& M) { for (int m = 0; m < NS; m++) { M.present[m] = false; M.filt[m] = 0; } }
// one symbolic operation applied to both the tree and its model
static void op(ST& st, Model& M, const char* tag) {
  static const int masks[4] = {1, 3, 6, NS - 1}; int kind = vp_fork_int(vp_int(tag, 0, 2)), m = masks[vp_fork_int(vp_int("mask", 0, 3))]; FV f = Opts::store_filtration ? (FV)vp_fork_int(vp_int("f", 0, 1)) : FV(0);
#if VP_OPT == 2
  vp_assume(kind == 0 || __builtin_popcount(m) > 1);   // contiguous_vertices: the vertices stay
#endif
  if (kind == 0) { st.insert_simplex_and_subfaces(word(m), f); for (int s = 1; s < NS; s++) if ((s & m) == s) { if (!M.present[s]) { M.present[s] = true; M.filt[s] = f; } else if (f < M.filt[s]) M.filt[s] = f; } }
  else if (kind == 1) { vp_assume(M.present[m]); for (int s = 1; s < NS; s++) if (M.present[s] && s != m && (s & m) == m) vp_assume(false); st.remove_maximal_simplex(st.find(word(m))); M.present[m] = false; }
  else { vp_assume(Opts::store_filtration); bool any = false; for (int s = 1; s < NS; s++) if (M.present[s] && f < M.filt[s]) { M.present[s] = false; any = true; }
#if VP_OPT == 2
    for (int i = 0; i < N; i++) vp_assume(M.present[1 << i]);
#endif
    st.prune_above_filtration(f); (void)any; }
  for (int mm = 1; mm < NS; mm++) if (M.present[mm]) for (int i = 0; i < N; i++) if ((mm >> i & 1) && (mm & ~(1 << i))) { int fc = mm & ~(1 << i); vp_assume(M.present[fc] && !(M.filt[fc] > M.filt[mm])); }
}
static void agrees(ST& st, const Model& M, const char* label) {
  int cnt = 0; for (int m = 1; m < NS; m++) { auto sh = st.find(word(m)); vp_assert((sh != st.null_simplex()) == M.present[m], label); if (M.present[m] && sh != st.null_simplex()) { cnt++; if (Opts::store_filtration) vp_assert(st.filtration(sh) == M.filt[m], label); } }
  { int md = -1; for (int m = 1; m < NS; m++) if (M.present[m] && __builtin_popcount(m) - 1 > md) md = __builtin_popcount(m) - 1; vp_assert(st.dimension() == md, label); }
  vp_assert((int)st.num_simplices() == cnt, label); int seen = 0; for (auto sh : st.complex_simplex_range()) { (void)sh; seen++; } vp_assert(seen == cnt, label);
}
extern "C" void harness() {
  ST* a = new ST; Model MA; clear(MA);
#if VP_OPT == 2
  { std::vector<int> all; for (int i = 0; i < N; i++) all.push_back(i); a->insert_batch_vertices(all, FV(0)); for (int i = 0; i < N; i++) MA.present[1 << i] = true; }
#endif
  { int m0 = vp_fork_int(vp_int("m0", 0, 3)); static const int first[4] = {3, 5, 6, 7}; FV f0 = FV(0); a->insert_simplex_and_subfaces(word(first[m0]), f0); for (int sb = 1; sb < NS; sb++) if ((sb & first[m0]) == sb && !MA.present[sb]) { MA.present[sb] = true; MA.filt[sb] = f0; } }
  op(*a, MA, "kindA2");
#ifdef VP_SERIAL
  int how = 7;
#else
  int how = vp_fork_int(vp_int("how", 0, 6));
#endif
  ST* b = nullptr; Model MB = MA;
  if (how == 0) { b = new ST(*a); vp_reach("copy-ctor"); }
  else if (how == 1) { b = new ST; Model tmp; clear(tmp);
#if VP_OPT == 2
    { std::vector<int> all; for (int i = 0; i < N; i++) all.push_back(i); b->insert_batch_vertices(all, FV(0)); for (int i = 0; i < N; i++) tmp.present[1 << i] = true; }
#endif
    b->insert_simplex_and_subfaces(word(3), FV(Opts::store_filtration ? 1 : 0)); *b = *a; vp_reach("copy-assign"); }
  else if (how == 2) { ST& r = *a; *a = r; b = new ST(*a); vp_reach("self-assign"); }
  else if (how == 3) { b = new ST(std::move(*a)); vp_assert(a->num_simplices() == 0 && a->num_vertices() == 0, "moved-from tree is empty"); clear(MA); vp_reach("move-ctor"); }
  else if (how == 4) { b = new ST; Model tmp; clear(tmp);
#if VP_OPT == 2
    { std::vector<int> all; for (int i = 0; i < N; i++) all.push_back(i); b->insert_batch_vertices(all, FV(0)); for (int i = 0; i < N; i++) tmp.present[1 << i] = true; }
#endif
    b->insert_simplex_and_subfaces(word(3), FV(Opts::store_filtration ? 1 : 0)); *b = std::move(*a); vp_assert(a->num_simplices() == 0, "moved-from tree is empty"); clear(MA); vp_reach("move-assign"); }
  else if (how == 5) { b = new ST; { using std::swap; swap(*a, *b); } vp_assert(a->num_simplices() == 0, "swap with an empty tree empties the source"); clear(MA); vp_reach("swap"); }
  else { // serialisation round trip through an exact-size buffer (one byte more written = out-of-bounds store)
    std::size_t n = a->get_serialization_size(); char* buf = (char*)malloc(n); a->serialize(buf, n);
    b = new ST; b->deserialize(buf, n); vp_reach("serialize");
    static const int deltas[9] = {-8, -4, -3, -1, 0, 1, 3, 4, 8}; int d = deltas[vp_fork_int(vp_int("delta", 0, 8))];
#ifdef VP_KF_SHORT
    vp_assume(d < 0 && (std::size_t)(-d) <= n);
#else
    vp_assume(d >= 0);   // known finding: a truncated buffer is read past its end before being refused (explored by the *_kf unit)
#endif
    if (d != 0) { char* buf2 = (char*)malloc(n + d); memcpy(buf2, buf, d > 0 ? n : n + d); if (d > 0) memset(buf2 + n, 0, d);
      ST c; bool threw = false; try { c.deserialize(buf2, n + d); } catch (const std::invalid_argument&) { threw = true; }
      vp_assert(threw, "a buffer of the wrong length is refused with std::invalid_argument"); free(buf2); vp_reach("wrong-length"); }
    { bool threw = false; char* small = (char*)malloc(n + 1); try { a->serialize(small, n + 1); } catch (const std::invalid_argument&) { threw = true; } vp_assert(threw, "serialize refuses a buffer size different from the announced one"); free(small); }
    free(buf); }
  vp_assert(*b == *a || how == 3 || how == 4 || how == 5, "the copy equals its source");
  agrees(*b, MB, "the new object equals the source state"); agrees(*a, MA, "the source is intact (or empty after a move)");
#if VP_OPT == 2
  if (how == 3 || how == 4 || how == 5) { vp_reach("end"); delete a; delete b; return; }   // contiguous vertices: an emptied tree cannot take arbitrary operations
#endif
  // independence: diverge, then destroy one
  if (vp_fork_int(vp_int("mutate", 0, 1))) { op(*a, MA, "kindA3"); agrees(*b, MB, "mutating the source does not change the copy"); agrees(*a, MA, "the source follows its own model"); }
  else { op(*b, MB, "kindB3"); agrees(*a, MA, "mutating the copy does not change the source"); agrees(*b, MB, "the copy follows its own model"); }
  if (vp_fork_int(vp_int("destroy", 0, 1))) { delete a; a = nullptr; agrees(*b, MB, "destroying the source does not change the copy"); } else { delete b; b = nullptr; agrees(*a, MA, "destroying the copy does not change the source"); }
  delete a; delete b;
  vp_reach("end");
}
