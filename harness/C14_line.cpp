// C14 (1D): compute_persistence_of_function_on_line == union-find elder rule on the path graph (lower-star filtration of a line).
// Symbolic: the length n in [1,VP_N] and every value.  VP_T = value type, VP_GREATER = run with std::greater (superlevel sets).
#include "vp.h"
#include <gudhi/Persistence_on_a_line.h>
#include <functional>
#ifndef VP_N
#define VP_N 5
#endif
#ifndef VP_T
#define VP_T int
#endif
typedef VP_T T;
#ifdef VP_GREATER
static bool lt(T a, T b) { return a > b; }
#else
static bool lt(T a, T b) { return a < b; }
#endif
struct Span { const T* b; const T* e; const T* begin() const { return b; } const T* end() const { return e; } };
// reference: process edges (i,i+1) by increasing max value; elder rule; zero-length pairs dropped
static int ref_line(const T* f, int n, T* rb, T* rd, T* gmin) {
  int par[VP_N]; T mn[VP_N]; int k = 0; bool done[VP_N];
  for (int i = 0; i < n; i++) { par[i] = i; mn[i] = f[i]; done[i] = false; }
  for (int step = 0; step + 1 < n; step++) {
    int best = -1; T bv = 0;
    for (int e = 0; e + 1 < n; e++) if (!done[e]) { T v = lt(f[e], f[e + 1]) ? f[e + 1] : f[e]; if (best < 0 || lt(v, bv)) { best = e; bv = v; } }
    done[best] = true; int a = best, b = best + 1;
    while (par[a] != a) a = par[a];
    while (par[b] != b) b = par[b];
    int young = lt(mn[b], mn[a]) ? a : b, old = young == a ? b : a;
    if (lt(mn[young], bv)) { rb[k] = mn[young]; rd[k] = bv; k++; }
    par[young] = old;
  }
  int r = 0; while (par[r] != r) r = par[r];
  *gmin = mn[r]; return k;
}
static void sortpairs(T* b, T* d, int k) {
  for (int i = 0; i < k; i++) for (int j = 0; j + 1 < k - i; j++)
    if (b[j] > b[j + 1] || (b[j] == b[j + 1] && d[j] > d[j + 1])) { T t = b[j]; b[j] = b[j + 1]; b[j + 1] = t; t = d[j]; d[j] = d[j + 1]; d[j + 1] = t; }
}
extern "C" void harness() {
  T in[VP_N]; int n = vp_int("n", 1, VP_N);
#ifdef VP_GRIDV   /* values as guarded finite-grid doubles (compare/copy only in this routine): same value set 0..VP_N, much cheaper queries */
  for (int i = 0; i < VP_N; i++) in[i] = i < n ? (T)vp_double_grid("f", 0.0, 1.0, VP_N + 1) : (T)0;
#else
  for (int i = 0; i < VP_N; i++) in[i] = i < n ? (T)vp_int("f", 0, VP_N) : (T)0;
#endif
  T ob[VP_N + 2], od[VP_N + 2], rb[VP_N], rd[VP_N], gmin; int k = 0; bool overflow = false;
  Span s{in, in + n};
#ifdef VP_GREATER
  Gudhi::persistent_cohomology::compute_persistence_of_function_on_line(s, [&](T b, T d) { if (k < VP_N + 1) { ob[k] = b; od[k] = d; ++k; } else overflow = true; }, std::greater<>());
#else
  Gudhi::persistent_cohomology::compute_persistence_of_function_on_line(s, [&](T b, T d) { if (k < VP_N + 1) { ob[k] = b; od[k] = d; ++k; } else overflow = true; });
#endif
  int rk = ref_line(in, n, rb, rd, &gmin);
  vp_assert(!overflow, "more intervals than cells");
  vp_assert(k == rk + 1, "number of intervals");
  if (k >= 1) vp_assert(ob[k - 1] == gmin, "global extremum is birth of infinite class");
  if (k == rk + 1) { sortpairs(ob, od, k - 1); sortpairs(rb, rd, rk);
    for (int i = 0; i < rk; i++) { vp_assert(ob[i] == rb[i] && od[i] == rd[i], "interval multiset"); vp_assert(ob[i] != od[i], "zero-length interval emitted"); } }
  vp_observe((uint64_t)k);
  vp_reach("end");
}
