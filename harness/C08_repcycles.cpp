// C08: representative cycles really represent their bars (Z_2).
// Symbolic: the filtration (and an optional remove_last / re-insert prefix). Every clause of the statement is evaluated with dense GF(2) rank tests.
#include "pm_common.h"
#ifndef VP_RM
#define VP_RM 0
#endif
static int rank2(int* v, int k) { int r = 0; for (int bit = M - 1; bit >= 0; bit--) { int p = -1; for (int i = r; i < k; i++) if (v[i] >> bit & 1) { p = i; break; } if (p < 0) continue; int t = v[p]; v[p] = v[r]; v[r] = t; for (int i = 0; i < k; i++) if (i != r && (v[i] >> bit & 1)) v[i] ^= v[r]; r++; } return r; }
static void check_cycles(Mat& mat, int n) {
  int D[M][M], R[M][M], U[M][M], low[M], pairOf[M]; dense_boundary(D, n); reduce(D, n, low, pairOf, R, U);
  int Dcol[M], Zcol[M]; for (int j = 0; j < n; j++) { Dcol[j] = 0; Zcol[j] = 0; for (int r = 0; r < n; r++) { if (D[r][j]) Dcol[j] |= 1 << r; if (U[r][j]) Zcol[j] |= 1 << r; } }   // Zcol[j] is a cycle when low[j] < 0
  // known finding (RU flavour, Z_2): the cycles are read from the stored factor U = V^-1 instead of V (R = D*V); they differ as soon as reductions chain.
  int Vinv[M][M]; for (int i = 0; i < M; i++) for (int j = 0; j < M; j++) Vinv[i][j] = i == j;
  for (int j = 0; j < n; j++) for (int i = j - 1; i >= 0; i--) { int a = 0; for (int k = i + 1; k <= j; k++) a ^= U[i][k] & Vinv[k][j]; Vinv[i][j] = a; }   // back substitution, U (=V) is unit upper triangular
  mat.update_representative_cycles();
  int rep[M]; bool hasRep[M]; for (int i = 0; i < M; i++) { rep[i] = 0; hasRep[i] = false; }
  int nb = 0;
  for (auto& bar : mat.get_current_barcode()) { nb++; int b = (int)bar.birth; if (b < 0 || b >= n) { vp_assert(false, "bar birth in range"); continue; }
    bool kf = false;
#if VP_FLAVOUR == 1
    { int viv = 0; for (int r = 0; r < n; r++) if (Vinv[b][r]) viv |= 1 << r; if (viv != Zcol[b]) kf = true; }   // row b of V^-1 (what the library reads) differs from column b of V
#ifdef VP_KF_RUREP
    if (!kf) continue;
#else
    if (kf) continue;
#endif
#endif
    (void)kf;
    const auto& cyc = mat.get_representative_cycle(bar); int z = 0, youngest = -1; bool dimok = true, inrange = true;
    for (auto c : cyc) { if ((int)c >= n) { inrange = false; continue; } if (z >> c & 1) inrange = false; z |= 1 << c; if (pc(cell[c]) - 1 != bar.dim) dimok = false; if ((int)c > youngest) youngest = (int)c; }
    vp_assert(inrange, "representative lists valid cells, each once"); vp_assert(dimok, "every cell of the representative has the bar's dimension");
    int bd = 0; for (int c = 0; c < n; c++) if (z >> c & 1) bd ^= Dcol[c]; vp_assert(bd == 0, "representative has zero boundary");
    vp_assert(youngest == b, "the youngest cell of the representative is the birth cell");
    rep[b] = z; hasRep[b] = true;
    int d = bar.death == Mat::template get_null_value<typename Mat::Pos_index>() ? n : (int)bar.death;
    // classes that existed before the birth: cycles of K_{b-1}
    for (int t = b; t <= d && t <= n; t++) { int v[3 * M + 2]; int k = 0;
      for (int j = 0; j <= t && j < n; j++) if (Dcol[j]) v[k++] = Dcol[j];          // boundaries of K_t
      for (int j = 0; j < b; j++) if (low[j] < 0) v[k++] = Zcol[j];                  // cycles born before b
      int w[3 * M + 2]; for (int i = 0; i < k; i++) w[i] = v[i]; int r0 = rank2(w, k); v[k++] = z; int r1 = rank2(v, k);
      if (t < d) vp_assert(r1 == r0 + 1, "alive: the class is not a combination of older classes and boundaries");
      else if (d < n) { vp_assert(r1 == r0, "at its death the class becomes a combination of older classes and boundaries");
#if VP_FLAVOUR == 2
        { int u[M + 1]; int q = 0; for (int j = 0; j <= t; j++) if (Dcol[j]) u[q++] = Dcol[j]; int x[M + 1]; for (int i = 0; i < q; i++) x[i] = u[i]; int s0 = rank2(x, q); u[q++] = z; vp_assert(rank2(u, q) == s0, "chain flavour: at its death the representative is a boundary"); }
#endif
      } } }
  { int zero = 0; for (int j = 0; j < n; j++) if (low[j] < 0) zero++; vp_assert(nb == zero, "one representative per bar"); }
  // at every index the representatives of the bars alive there are a basis of H(K_t)
  for (int t = 0; t < n; t++) { int v[2 * M + 2]; int k = 0, alive = 0; for (int j = 0; j <= t; j++) if (Dcol[j]) v[k++] = Dcol[j];
    int w[2 * M + 2]; for (int i = 0; i < k; i++) w[i] = v[i]; int rb = rank2(w, k);
    for (int b = 0; b <= t; b++) if (low[b] < 0 && (pairOf[b] == -1 || pairOf[b] > t)) { alive++; if (hasRep[b]) v[k++] = rep[b]; }
    int betti = 0; { int zc = 0; for (int j = 0; j <= t; j++) if (low[j] < 0) zc++; betti = zc - ( [&]{ int c = 0; for (int j = 0; j <= t; j++) if (low[j] >= 0) c++; return c; }() ); }
    vp_assert(alive == betti, "oracle sanity: alive bars = total Betti number");
    bool allrep = true; for (int b = 0; b <= t; b++) if (low[b] < 0 && (pairOf[b] == -1 || pairOf[b] > t) && !hasRep[b]) allrep = false;
    if (allrep) vp_assert(rank2(v, k) == rb + alive, "representatives of the alive bars are independent modulo boundaries (a basis of homology)"); }
}
extern "C" void harness() {
  choose_filtration();
  Mat mat(M);
  for (int j = 0; j < M; j++) insert_cell(mat, j);
  ncell = M; check_cycles(mat, M);
#if VP_RM
  { int k = vp_fork_int(vp_int("remove", 1, VP_RM)); for (int i = 0; i < k; i++) { mat.remove_last(); ncell--; }
    check_cycles(mat, ncell);
#ifndef VP_NOREINSERT
    for (int j = ncell; j < M; j++) { bool used[NSUB]; for (int s = 0; s < NSUB; s++) used[s] = false; for (int q = 0; q < j; q++) used[cell[q]] = true;
      int m = vp_int("recell", 1, NSUB - 1); vp_assume(!used[m]); for (int s = 1; s < NSUB; s++) if ((s & m) == s && s != m) vp_assume(used[s]); cell[j] = m; insert_cell(mat, j); }
    ncell = M; check_cycles(mat, M);
#endif
    vp_reach("removed"); }
#endif
  vp_reach("end");
}
