// C03: filtration order and filtration-value maintenance.
// VP_MODE 0: filtration_simplex_range order (+ strict total order of the induced comparator, determinism over insertion histories and option sets)
//         1: make_filtration_non_decreasing on arbitrary (non-monotone) values   2: prune_above_filtration (incl. +-inf threshold, NaN values)
//         3: extend_filtration / decode_extended_filtration on grid-valued vertex functions
#include "vp.h"
#include <gudhi/Simplex_tree.h>
#include <vector>
#include <cmath>
#include <limits>
#ifndef VP_MODE
#define VP_MODE 0
#endif
#ifndef VP_N
#define VP_N 3
#endif
#ifndef VP_VMAX
#define VP_VMAX 2
#endif
struct IntOpts : Gudhi::Simplex_tree_options_default { typedef int Filtration_value; };
typedef Gudhi::Simplex_tree<> ST; typedef Gudhi::Simplex_tree<Gudhi::Simplex_tree_options_full_featured> ST2;
enum { N = VP_N, NS = 1 << VP_N };
static std::vector<int> word(int mask) { std::vector<int> w; for (int i = 0; i < N; i++) if (mask >> i & 1) w.push_back(i); return w; }
static int pcnt(int m) { return __builtin_popcount(m); }
template <class T> static int mask_of(T& st, typename T::Simplex_handle sh) { int m = 0; for (auto v : st.simplex_vertex_range(sh)) m |= 1 << v; return m; }
// symbolic face-closed shape: presence bit per vertex set, closed under faces by assumption
static bool shape[NS];
static void choose_shape() {
#ifdef VP_FULL
  for (int m = 1; m < NS; m++) shape[m] = true;
#else
  for (int m = 1; m < NS; m++) shape[m] = pcnt(m) == 1 ? true : (vp_fork_int(vp_int("in", 0, 1)) != 0);
  for (int m = 1; m < NS; m++) if (shape[m]) for (int s = 1; s < NS; s++) if ((s & m) == s) vp_assume(shape[s]);
#endif
}
extern "C" void harness() {
  choose_shape(); double f[NS];
#if VP_MODE == 0
  // monotone symbolic values (ties allowed)
  for (int m = 1; m < NS; m++) if (shape[m]) f[m] = (double)vp_int("f", 0, VP_VMAX);
  for (int m = 1; m < NS; m++) if (shape[m]) for (int s = 1; s < NS; s++) if ((s & m) == s && s != m) vp_assume(f[s] <= f[m]);
  ST st; for (int m = 1; m < NS; m++) if (shape[m]) st.insert_simplex(word(m), f[m]);
  int rank[NS], seen[NS]; for (int m = 0; m < NS; m++) { seen[m] = 0; rank[m] = -1; } int r = 0; double last = -1; int cnt = 0; for (int m = 1; m < NS; m++) if (shape[m]) cnt++;
  for (auto sh : st.filtration_simplex_range()) { int m = mask_of(st, sh); seen[m]++; rank[m] = r++; vp_assert(st.filtration(sh) >= last, "filtration range never decreases in value"); last = st.filtration(sh); }
  vp_assert(r == cnt, "filtration range lists every simplex");
  for (int m = 1; m < NS; m++) if (shape[m]) { vp_assert(seen[m] == 1, "each simplex exactly once"); for (int s = 1; s < NS; s++) if ((s & m) == s && s != m) vp_assert(rank[s] < rank[m], "every simplex comes after all its faces"); }
  // the order is a function of the filtered complex alone: the documented rule is (value, then reverse-lexicographic vertex words) - check it pairwise (strict total order)
  for (int a = 1; a < NS; a++) if (shape[a]) for (int b = 1; b < NS; b++) if (shape[b] && a != b) { vp_assert((rank[a] < rank[b]) != (rank[b] < rank[a]), "exactly one of a<b, b<a"); if (f[a] < f[b]) vp_assert(rank[a] < rank[b], "smaller value first"); }
  // same sequence whatever the insertion history and the storage options
  { ST2 st2; for (int m = NS - 1; m >= 1; m--) if (shape[m] && pcnt(m) == 1) st2.insert_simplex(word(m), f[m]); for (int d = 2; d <= N; d++) for (int m = NS - 1; m >= 1; m--) if (shape[m] && pcnt(m) == d) st2.insert_simplex(word(m), f[m]);
    int r2 = 0; for (auto sh : st2.filtration_simplex_range()) { int m = mask_of(st2, sh); vp_assert(rank[m] == r2, "same sequence whatever the insertion history and the option set"); r2++; } }
  { ST st3; for (int m = 1; m < NS; m++) if (shape[m]) { bool maximal = true; for (int t = 1; t < NS; t++) if (t != m && shape[t] && (t & m) == m) maximal = false; if (maximal) st3.insert_simplex_and_subfaces(word(m), f[m]); }
    for (int m = 1; m < NS; m++) if (shape[m]) st3.assign_filtration(st3.find(word(m)), f[m]); st3.clear_filtration();
    int r3 = 0; for (auto sh : st3.filtration_simplex_range()) { int m = mask_of(st3, sh); vp_assert(rank[m] == r3, "same sequence after insertion by maximal simplices + assign_filtration"); r3++; } }
  { // the range is a function of the current complex: it must follow a modification made after it was first computed
    int top = -1; for (int m = NS - 1; m >= 1; m--) if (shape[m]) { bool mx = true; for (int t = 1; t < NS; t++) if (t != m && shape[t] && (t & m) == m) mx = false; if (mx && pcnt(m) > 1) { top = m; break; } }
    if (top > 0) { st.remove_maximal_simplex(st.find(word(top))); st.clear_filtration(); /* documented: the caller drops the cache after modifying the complex by hand */ int r4 = 0; bool gone = true; for (auto sh : st.filtration_simplex_range()) { if (mask_of(st, sh) == top) gone = false; r4++; } vp_assert(gone && r4 == cnt - 1, "after clear_filtration the range follows a removal made since it was first computed"); vp_reach("range-after-removal"); }
    std::vector<int> nv; nv.push_back(N + 3); st.insert_simplex(nv, 0.0); st.clear_filtration(); int r5 = 0; bool seen_new = false; for (auto sh : st.filtration_simplex_range()) { if (st.dimension(sh) == 0 && *st.simplex_vertex_range(sh).begin() == N + 3) seen_new = true; r5++; } vp_assert(seen_new && r5 == (top > 0 ? cnt : cnt + 1), "after clear_filtration the range follows an insertion made since it was first computed"); }
#elif VP_MODE == 1
#ifdef VP_INTFILT   /* storage option: an integer filtration value type (no NaN, separate branch of intersect_lifetimes) */
  typedef Gudhi::Simplex_tree<IntOpts> ST1; typedef int FV1;
#else
  typedef ST ST1; typedef double FV1;
#endif
  FV1 g[NS];
  for (int m = 1; m < NS; m++) if (shape[m]) g[m] = (FV1)vp_int("f", 0, VP_VMAX);   // arbitrary, possibly non-monotone
  ST1 st; for (int m = 1; m < NS; m++) if (shape[m]) st.insert_simplex(word(m), g[m]);
  bool changed = st.make_filtration_non_decreasing(); bool any = false;
  for (int m = 1; m < NS; m++) if (shape[m]) { FV1 mx = g[m]; for (int s = 1; s < NS; s++) if ((s & m) == s && g[s] > mx) mx = g[s];
    vp_assert(st.filtration(st.find(word(m))) == mx, "value = maximum of its own and its faces' original values"); if (mx != g[m]) any = true; }
  vp_assert(changed == any, "returns true exactly when a value changed");
  vp_assert(!st.make_filtration_non_decreasing(), "idempotent: a second call changes nothing");
#elif VP_MODE == 2
  // monotone values possibly with NaN on top simplices; threshold finite or +-infinity
  const double inf = std::numeric_limits<double>::infinity(), nan = std::numeric_limits<double>::quiet_NaN();
  for (int m = 1; m < NS; m++) if (shape[m]) { int v = vp_int("f", 0, VP_VMAX + 1); f[m] = v == VP_VMAX + 1 ? nan : (double)v; }
  for (int m = 1; m < NS; m++) if (shape[m]) for (int s = 1; s < NS; s++) if ((s & m) == s && s != m) vp_assume(f[s] == f[s] && (f[m] != f[m] || f[s] <= f[m]));   // faces are not NaN and not later
  ST st; for (int m = 1; m < NS; m++) if (shape[m]) st.insert_simplex(word(m), f[m]);
  int tv = vp_int("t", -2, VP_VMAX + 1); double t = tv == -2 ? -inf : tv == VP_VMAX + 1 ? inf : (double)tv;
  { bool anynan = false; for (int m = 1; m < NS; m++) if (shape[m] && f[m] != f[m]) anynan = true; vp_assume(!(tv == VP_VMAX + 1 && anynan)); }   // pruning at +infinity is a documented no-op shortcut; NaN-valued simplices then stay (outside the statement)
  bool pr = st.prune_above_filtration(t); bool any = false; int kept = 0;
  for (int m = 1; m < NS; m++) if (shape[m]) { bool keep = !(t < f[m]) && f[m] == f[m]; if (!keep) any = true; else kept++; vp_assert((st.find(word(m)) != st.null_simplex()) == keep, "pruning keeps exactly the sublevel complex (NaN-valued simplices go)"); }
  vp_assert(pr == any, "prune returns true exactly when something was removed"); vp_assert((int)st.num_simplices() == kept, "number of simplices after pruning");
  { int md = -1; for (int m = 1; m < NS; m++) if (shape[m] && !(t < f[m]) && f[m] == f[m] && pcnt(m) - 1 > md) md = pcnt(m) - 1; vp_assert(st.dimension() == md, "dimension after pruning"); }
#else
  // vertex function on a grid; lower-star filtration; extended filtration = cone filtration
  double g[N]; for (int i = 0; i < N; i++) g[i] = vp_double_grid_forked("g", 0.0, 0.5, VP_VMAX * 2 + 1);
  ST st; for (int m = 1; m < NS; m++) if (shape[m]) { double mx = g[__builtin_ctz(m)]; for (int i = 0; i < N; i++) if ((m >> i & 1) && g[i] > mx) mx = g[i]; st.insert_simplex(word(m), mx); }
  double mn = g[0], mxv = g[0]; for (int i = 1; i < N; i++) { if (g[i] < mn) mn = g[i]; if (g[i] > mxv) mxv = g[i]; }
  if (vp_fork_int(vp_int("warm", 0, 1))) { int c0 = 0; for (auto sh : st.filtration_simplex_range()) { (void)sh; c0++; } vp_assert(c0 > 0, "range before the extension"); vp_reach("warm-cache"); }   // a filled filtration cache must not survive the extension
  auto efd = st.extend_filtration();
  vp_assert(efd.minval == mn && efd.maxval == mxv, "extend_filtration returns the range of the vertex function");
  int cnt = 0; for (int m = 1; m < NS; m++) if (shape[m]) cnt++;
  vp_assert((int)st.num_simplices() == 2 * cnt + 1, "the cone has every original simplex, its cone, and the cone point");
  double scale = mxv - mn; if (scale != 0) scale = 1 / scale;
  for (int m = 1; m < NS; m++) if (shape[m]) {
    double lo = g[__builtin_ctz(m)], hi = lo; for (int i = 0; i < N; i++) if (m >> i & 1) { if (g[i] < lo) lo = g[i]; if (g[i] > hi) hi = g[i]; }
    auto sh = st.find(word(m)); vp_assert(sh != st.null_simplex(), "original simplex present");
    // ascending lower-star on the original simplices: value of the latest vertex, rescaled to [-2,-1]
    vp_assert(st.filtration(sh) == -2 + (hi - mn) * scale, "ascending part: rescaled maximum over the vertices");
    auto d1 = st.decode_extended_filtration(st.filtration(sh), efd); vp_assert(d1.second == Gudhi::Extended_simplex_type::UP, "original simplices are of type UP"); vp_assert(std::fabs(d1.first - hi) <= 1e-9 * (1 + std::fabs(hi)), "decoding returns the original value (ascending)");
    std::vector<int> c = word(m); c.push_back(N); auto ch = st.find(c); vp_assert(ch != st.null_simplex(), "coned simplex present");
    // descending upper-star on the coned simplices: value of the earliest vertex, rescaled to [1,2]
    vp_assert(st.filtration(ch) == 2 - (lo - mn) * scale, "descending part: rescaled minimum over the vertices");
    auto d2 = st.decode_extended_filtration(st.filtration(ch), efd); vp_assert(d2.second == Gudhi::Extended_simplex_type::DOWN, "coned simplices are of type DOWN"); vp_assert(std::fabs(d2.first - lo) <= 1e-9 * (1 + std::fabs(lo)), "decoding returns the original value (descending)"); }
  { int r = 0; double last = -4; bool mono = true; for (auto sh : st.filtration_simplex_range()) { if (st.filtration(sh) < last) mono = false; last = st.filtration(sh); r++; } vp_assert(r == 2 * cnt + 1, "after the extension the filtration range lists every simplex of the cone exactly once"); vp_assert(mono, "the extended filtration range never decreases"); }
  { std::vector<int> cp; cp.push_back(N); auto sh = st.find(cp); vp_assert(sh != st.null_simplex() && st.filtration(sh) == -3, "cone point enters first"); auto d = st.decode_extended_filtration(st.filtration(sh), efd); vp_assert(d.second == Gudhi::Extended_simplex_type::EXTRA, "the cone point is of type EXTRA"); }
#endif
  vp_reach("end");
}
