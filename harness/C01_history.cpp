// C01: after any history of operations the simplex tree equals the abstract complex the history defines; every read interface agrees.
// Symbolic: VP_K operations, each = (kind, vertex-set bitmask over VP_N labels, filtration value / threshold / dimension).
// Oracle: present[2^n], filt[2^n] updated by the documented rules. Full observation after every step.
#include "vp.h"
#include <gudhi/Simplex_tree.h>
#include <vector>
#ifndef VP_N
#define VP_N 3
#endif
#ifndef VP_K
#define VP_K 2
#endif
#ifndef VP_OPT
#define VP_OPT 0
#endif
#ifndef VP_FMAX
#define VP_FMAX 2
#endif
struct Opt_stable_only : Gudhi::Simplex_tree_options_default { static const bool stable_simplex_handles = true; };
struct Opt_linked_only : Gudhi::Simplex_tree_options_default { static const bool link_nodes_by_label = true; };
#if VP_OPT == 0
typedef Gudhi::Simplex_tree_options_default Opts;
#elif VP_OPT == 1
typedef Gudhi::Simplex_tree_options_full_featured Opts;
#elif VP_OPT == 2
typedef Gudhi::Simplex_tree_options_fast_persistence Opts;
#elif VP_OPT == 3
typedef Gudhi::Simplex_tree_options_minimal Opts;
#elif VP_OPT == 4
typedef Opt_stable_only Opts;
#else
typedef Opt_linked_only Opts;
#endif
typedef Gudhi::Simplex_tree<Opts> ST; typedef ST::Filtration_value FV;
enum { NS = 1 << VP_N };
#if VP_LABELS == 1 && VP_OPT != 2
static const int label[4] = {-7, 2, 40, 41};
#else
static const int label[4] = {0, 1, 2, 3};
#endif
static bool present[NS]; static FV filt[NS];
static std::vector<int> word(int mask) { std::vector<int> w; for (int i = VP_N - 1; i >= 0; i--) if (mask >> i & 1) w.push_back(label[i]); return w; }
static int dim_of(int mask) { return __builtin_popcount(mask) - 1; }
static int bit_of(int lab) { for (int i = 0; i < VP_N; i++) if (label[i] == lab) return i; return -1; }
static int mask_of(ST& st, ST::Simplex_handle sh) { int m = 0; for (auto v : st.simplex_vertex_range(sh)) { int b = bit_of(v); if (b < 0) return -1; m |= 1 << b; } return m; }
static bool model_ok() {   // closed under faces and monotone
  for (int m = 1; m < NS; m++) if (present[m]) for (int i = 0; i < VP_N; i++) if ((m >> i & 1) && (m & ~(1 << i))) { int f = m & ~(1 << i); if (!present[f]) return false; if (Opts::store_filtration && filt[f] > filt[m]) return false; }
  return true;
}
static void observe(ST& st) {
  int cnt = 0, maxdim = -1; int bydim[VP_N + 1]; for (int d = 0; d <= VP_N; d++) bydim[d] = 0;
  for (int m = 1; m < NS; m++) { auto sh = st.find(word(m)); vp_assert((sh != st.null_simplex()) == present[m], "membership (find)");
    if (present[m] && sh != st.null_simplex()) { cnt++; bydim[dim_of(m)]++; if (dim_of(m) > maxdim) maxdim = dim_of(m);
      if (Opts::store_filtration) vp_assert(st.filtration(sh) == filt[m], "filtration value"); vp_assert(st.dimension(sh) == dim_of(m), "dimension(sh)"); vp_assert(mask_of(st, sh) == m, "simplex_vertex_range"); } }
  vp_assert((int)st.num_simplices() == cnt, "num_simplices"); vp_assert((int)st.num_vertices() == bydim[0], "num_vertices"); vp_assert(st.is_empty() == (cnt == 0), "is_empty");
  vp_assert(st.upper_bound_dimension() >= maxdim, "upper_bound_dimension is an upper bound");
  vp_assert(st.dimension() == maxdim, "dimension()");
  { auto nb = st.num_simplices_by_dimension(); for (int d = 0; d <= maxdim; d++) vp_assert(d < (int)nb.size() && (int)nb[d] == bydim[d], "num_simplices_by_dimension"); for (int d = maxdim + 1; d < (int)nb.size(); d++) vp_assert(nb[d] == 0, "num_simplices_by_dimension (tail)"); }
  int seen[NS];
  for (int m = 0; m < NS; m++) seen[m] = 0;
  for (auto sh : st.complex_simplex_range()) { int m = mask_of(st, sh); if (m > 0) seen[m]++; else vp_assert(false, "complex_simplex_range yields an unknown simplex"); }
  for (int m = 1; m < NS; m++) vp_assert(seen[m] == (present[m] ? 1 : 0), "complex_simplex_range lists each simplex exactly once");
  { int vs = 0, nv = 0; for (auto v : st.complex_vertex_range()) { int b = bit_of(v); vp_assert(b >= 0 && !(vs >> b & 1), "complex_vertex_range"); if (b >= 0) vs |= 1 << b; nv++; } for (int i = 0; i < VP_N; i++) vp_assert(((vs >> i) & 1) == (present[1 << i] ? 1 : 0), "complex_vertex_range lists exactly the vertices"); }
  for (int d = 0; d < VP_N; d++) { for (int m = 0; m < NS; m++) seen[m] = 0; for (auto sh : st.skeleton_simplex_range(d)) { int m = mask_of(st, sh); if (m > 0) seen[m]++; }
    for (int m = 1; m < NS; m++) vp_assert(seen[m] == ((present[m] && dim_of(m) <= d) ? 1 : 0), "skeleton_simplex_range"); }
  for (int m = 1; m < NS; m++) if (present[m]) { auto sh = st.find(word(m)); if (sh == st.null_simplex()) continue;
    for (int c = 0; c <= VP_N - 1 - dim_of(m) + 1 && c <= 3; c++) { for (int q = 0; q < NS; q++) seen[q] = 0;
      for (auto co : st.cofaces_simplex_range(sh, c)) { int cm = mask_of(st, co); if (cm > 0) seen[cm]++; }
      for (int q = 1; q < NS; q++) { bool exp = present[q] && (q & m) == m && (c == 0 || dim_of(q) - dim_of(m) == c); vp_assert(seen[q] == (exp ? 1 : 0), c == 0 ? "star_simplex_range / cofaces(0)" : "cofaces_simplex_range(codim)"); } }
    { for (int q = 0; q < NS; q++) seen[q] = 0; for (auto co : st.star_simplex_range(sh)) { int cm = mask_of(st, co); if (cm > 0) seen[cm]++; }
      for (int q = 1; q < NS; q++) vp_assert(seen[q] == ((present[q] && (q & m) == m) ? 1 : 0), "star_simplex_range"); }
    { int nb = 0, un = 0; for (auto b : st.boundary_simplex_range(sh)) { int bm = mask_of(st, b); vp_assert(bm > 0 && (bm & m) == bm && __builtin_popcount(bm) == __builtin_popcount(m) - 1 && !(un & (m & ~bm)), "boundary_simplex_range face"); un |= (m & ~bm); nb++; }
      vp_assert(nb == (dim_of(m) == 0 ? 0 : dim_of(m) + 1), "boundary_simplex_range size"); }
    { int nb = 0; for (auto bo : st.boundary_opposite_vertex_simplex_range(sh)) { int bm = mask_of(st, bo.first); int vb = bit_of(bo.second); vp_assert(bm > 0 && vb >= 0 && (bm | (1 << vb)) == m && !(bm >> vb & 1), "boundary_opposite_vertex_simplex_range"); nb++; }
      vp_assert(nb == (dim_of(m) == 0 ? 0 : dim_of(m) + 1), "boundary_opposite_vertex_simplex_range size"); } }
  { ST ref; for (int m = 1; m < NS; m++) if (present[m]) ref.insert_simplex(word(m), Opts::store_filtration ? filt[m] : FV(0)); vp_assert(st == ref, "operator== against a tree rebuilt from the model"); vp_assert(!(st != ref), "operator!="); }
  vp_observe((uint64_t)cnt * 16 + (uint64_t)(maxdim + 1));
}
extern "C" void harness() {
  ST st; for (int m = 0; m < NS; m++) { present[m] = false; filt[m] = 0; }
#if VP_OPT == 2
  { std::vector<int> all; for (int i = 0; i < VP_N; i++) all.push_back(label[i]); st.insert_batch_vertices(all, FV(0)); for (int i = 0; i < VP_N; i++) { present[1 << i] = true; filt[1 << i] = 0; } }   // contiguous_vertices: labels 0..n-1 all present
#endif
#ifdef VP_STATE
  // arbitrary valid start state (instead of the empty tree): a solver-chosen face-closed shape with monotone values, built simplex by simplex
  // (state construction is not under test here; the operations below are). One inductive step then covers what long histories would reach.
  for (int m = 1; m < NS; m++) { bool in = __builtin_popcount(m) == 1 ? (VP_OPT == 2 ? true : vp_fork_int(vp_int("in", 0, 1)) != 0) : vp_fork_int(vp_int("in", 0, 1)) != 0; if (!in) continue;
    for (int s2 = 1; s2 < NS; s2++) if ((s2 & m) == s2 && s2 != m) vp_assume(present[s2]);
    FV f0 = Opts::store_filtration ? (FV)vp_fork_int(vp_int("f0", 0, VP_FMAX)) : FV(0); for (int s2 = 1; s2 < NS; s2++) if ((s2 & m) == s2 && s2 != m) vp_assume(!(filt[s2] > f0));
#if VP_OPT == 2
    if (__builtin_popcount(m) == 1) { filt[m] = 0; continue; }
#endif
    st.insert_simplex(word(m), f0); present[m] = true; filt[m] = f0; }
  observe(st);
#endif
  for (int step = 0; step < VP_K; step++) {
    int kind = vp_int("kind", 0, 6); int m = vp_int("mask", 1, NS - 1); FV f = Opts::store_filtration ? (FV)vp_int("f", 0, VP_FMAX) : FV(0);
    if (kind == 0) { st.insert_simplex_and_subfaces(word(m), f);
      for (int s = 1; s < NS; s++) if ((s & m) == s) { if (!present[s]) { present[s] = true; filt[s] = f; } else if (f < filt[s]) filt[s] = f; }
      vp_reach("insert_simplex_and_subfaces");
    } else if (kind == 1) { bool ok = true; for (int s = 1; s < NS; s++) if ((s & m) == s && s != m && !present[s]) ok = false; vp_assume(ok);
      bool was = present[m]; auto r = st.insert_simplex(word(m), f); vp_assert(r.second == !was, "insert_simplex reports whether the simplex is new");
      if (!present[m]) { present[m] = true; filt[m] = f; } else if (f < filt[m]) filt[m] = f;
      vp_reach("insert_simplex");
    } else if (kind == 2) { vp_assume(present[m]); bool maximal = true; for (int s = 1; s < NS; s++) if (present[s] && s != m && (s & m) == m) maximal = false; vp_assume(maximal);
#if VP_OPT == 2
      vp_assume(dim_of(m) > 0);
#endif
      st.remove_maximal_simplex(st.find(word(m))); present[m] = false; vp_reach("remove_maximal_simplex");
    } else if (kind == 3) { vp_assume(Opts::store_filtration);
#if VP_OPT == 2
      vp_assume(f >= 0);   // keeps the vertices (contiguous_vertices)
#endif
      bool any = false; for (int s = 1; s < NS; s++) if (present[s] && f < filt[s]) { present[s] = false; any = true; }
      bool r = st.prune_above_filtration(f); vp_assert(r == any, "prune_above_filtration return value"); vp_reach("prune_above_filtration");
    } else if (kind == 4) { int d = (m % (VP_N + 1)) - 1;   // -1 .. VP_N-1
#if VP_OPT == 2
      vp_assume(d >= 0);
#endif
      bool any = false; for (int s = 1; s < NS; s++) if (present[s] && dim_of(s) > d) { present[s] = false; any = true; }
      bool r = st.prune_above_dimension(d); vp_assert(r == any, "prune_above_dimension return value"); vp_reach("prune_above_dimension");
    } else if (kind == 5) { std::vector<int> vs; for (int i = 0; i < VP_N; i++) if (m >> i & 1) vs.push_back(label[i]);
      st.insert_batch_vertices(vs, f); for (int i = 0; i < VP_N; i++) if ((m >> i & 1) && !present[1 << i]) { present[1 << i] = true; filt[1 << i] = f; }
      vp_reach("insert_batch_vertices");
    } else {
#if VP_OPT == 2
      vp_assume(false);
#endif
      st.clear(); for (int s = 0; s < NS; s++) present[s] = false; vp_reach("clear");
    }
    vp_assume(model_ok());   // documented precondition: the stored set stays a filtered complex
    observe(st);
  }
  vp_reach("end");
}
