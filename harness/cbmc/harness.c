/* CBMC entry: fully symbolic 32-bit inputs, the precondition is assumed, the obligation asserted. k.c is the C translation of the clang IR of kernels.cpp. */
#include "k.c"
#define K_FROM_C
#include "oblig.h"
unsigned nondet_uint(void);
void harness(void) {
  unsigned a = nondet_uint(), b = nondet_uint(), p = nondet_uint(), w = nondet_uint();
#ifdef PCONST
  p = PCONST;
#endif
  __CPROVER_assume(ob_pre(OB, a, b, p, w));
#ifdef WITNESS
  __CPROVER_assert(0, "witness: the precondition is satisfiable and the assertion is reached");
#else
  __CPROVER_assert(ob_check(OB, a, b, p, w), "obligation");
#endif
}
