// C10 (secondary engine): extern "C" wrappers around the real arithmetic kernels of the field classes, compiled by clang to LLVM IR,
// translated to C by engine/ll2c.py and handed to CBMC with fully symbolic 32-bit operands. The kernels are private static members:
// the wrappers reach them by re-declaring `private` (no change to the repository is needed).
#include <vector>
#include <array>
#include <utility>
#include <stdexcept>
#include <climits>
#include <limits>
#include <numeric>
#include <cassert>
#define private public
#include <gudhi/Fields/Zp_field_operators.h>
#include <gudhi/Fields/Zp_field_shared.h>
#include <gudhi/Fields/Multi_field_small_operators.h>
#include <gudhi/Persistent_cohomology/Field_Zp.h>
#undef private
using namespace Gudhi::persistence_fields;
typedef Zp_field_operators<> ZPO; typedef Multi_field_operators_with_small_characteristics MFO;
#define K extern "C" __attribute__((noinline))
K unsigned k_zpo_add(unsigned a, unsigned b, unsigned p) { return ZPO::_add(a, b, p); }
K unsigned k_zpo_sub(unsigned a, unsigned b, unsigned p) { return ZPO::_subtract(a, b, p); }
K unsigned k_zpo_mul(unsigned a, unsigned b, unsigned p) { return ZPO::_multiply(a, b, p); }
K unsigned k_mfo_add(unsigned a, unsigned b, unsigned p) { return MFO::_add(a, b, p); }
K unsigned k_mfo_sub(unsigned a, unsigned b, unsigned p) { return MFO::_subtract(a, b, p); }
K unsigned k_mfo_mul(unsigned a, unsigned b, unsigned p) { return MFO::_multiply(a, b, p); }
// get_value needs an object; only its characteristic_ field is read
K unsigned k_zpo_value_s(int e, unsigned p) { ZPO* op = (ZPO*)__builtin_alloca(sizeof(ZPO)); op->characteristic_ = p; return op->get_value(e); }
K unsigned k_zpo_value_u(unsigned e, unsigned p) { ZPO* op = (ZPO*)__builtin_alloca(sizeof(ZPO)); op->characteristic_ = p; return op->get_value(e); }
// cohomology Field_Zp: only Prime is read by the arithmetic
K int k_fzp_pte(int p, int x, int y, int w) { Gudhi::persistent_cohomology::Field_Zp* F = (Gudhi::persistent_cohomology::Field_Zp*)__builtin_alloca(sizeof(Gudhi::persistent_cohomology::Field_Zp)); F->Prime = p; return F->plus_times_equal(x, y, w); }
K int k_fzp_tm(int p, int x, int y) { Gudhi::persistent_cohomology::Field_Zp* F = (Gudhi::persistent_cohomology::Field_Zp*)__builtin_alloca(sizeof(Gudhi::persistent_cohomology::Field_Zp)); F->Prime = p; return F->times_minus(x, y); }
