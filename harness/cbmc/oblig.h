/* C10 obligations over the kernels (shared by the CBMC harness, the native replay and the translator validation). OB selects the obligation. */
#ifndef OBLIG_H
#define OBLIG_H
#include <stdint.h>
#ifndef K_FROM_C   /* the generated C declares every integer as uint32_t */
#ifdef __cplusplus
extern "C" {
#endif
unsigned k_zpo_add(unsigned, unsigned, unsigned); unsigned k_zpo_sub(unsigned, unsigned, unsigned); unsigned k_zpo_mul(unsigned, unsigned, unsigned);
unsigned k_mfo_add(unsigned, unsigned, unsigned); unsigned k_mfo_sub(unsigned, unsigned, unsigned); unsigned k_mfo_mul(unsigned, unsigned, unsigned);
unsigned k_zpo_value_s(int, unsigned); unsigned k_zpo_value_u(unsigned, unsigned); int k_fzp_pte(int, int, int, int); int k_fzp_tm(int, int, int);
#ifdef __cplusplus
}
#endif
#endif
/* precondition of obligation ob on the inputs (a, b, p, w) */
static int ob_pre(int ob, unsigned a, unsigned b, unsigned p, unsigned w) {
  switch (ob) {
    case 1: case 2: case 3: case 4: return p >= 2 && a < p && b < p;                       /* add / sub, any 32-bit modulus */
    case 5: return p >= 2;                                                                 /* get_value(unsigned): a is any 32-bit value */
    case 6: return p >= 2 && p <= 0x7fffffffu;                                             /* get_value(int): a reinterpreted as int */
    case 7: case 8: return p >= 2 && a < p && b < p;                                       /* multiply: termination and no trap, any 32-bit modulus */
    case 9: case 10: return p >= 2 && p <= 15 && a < p && b < p;                           /* multiply == exact product for p < 16 */
    case 11: case 12: return p >= 2 && p <= 65535 && a < p;                                /* unit and zero laws of multiply */
    case 13: case 14: case 15: case 16: return p >= 2 && p <= 46337 && a < p && b < p && w < p;  /* cohomology Field_Zp: 13/14 no overflow + reduced result, 15/16 exact value */
    default: return 0; }
}
/* the obligation itself: 1 = holds */
static int ob_check(int ob, unsigned a, unsigned b, unsigned p, unsigned w) {
  switch (ob) {
    case 1: return k_zpo_add(a, b, p) == (unsigned)(((uint64_t)a + b) % p);
    case 2: return k_zpo_sub(a, b, p) == (unsigned)(((uint64_t)a + p - b) % p);
    case 3: return k_mfo_add(a, b, p) == (unsigned)(((uint64_t)a + b) % p);
    case 4: return k_mfo_sub(a, b, p) == (unsigned)(((uint64_t)a + p - b) % p);
    case 5: return k_zpo_value_u(a, p) == a % p;
    case 6: { int64_t e = (int32_t)a; int64_t m = e % (int64_t)p; if (m < 0) m += p; return k_zpo_value_s((int32_t)a, p) == (unsigned)m; }
    case 7: (void)k_zpo_mul(a, b, p); return 1;          /* the unwinding assertions and the ubsan traps are the obligation */
    case 8: (void)k_mfo_mul(a, b, p); return 1;
    case 9: return k_zpo_mul(a, b, p) == (unsigned)(((uint64_t)a * b) % p);
    case 10: return k_mfo_mul(a, b, p) == (unsigned)(((uint64_t)a * b) % p);
    case 11: return k_zpo_mul(a, 1 % p, p) == a && k_zpo_mul(1 % p, a, p) == a && k_zpo_mul(a, 0, p) == 0 && k_zpo_mul(0, a, p) == 0;
    case 12: return k_mfo_mul(a, 1 % p, p) == a && k_mfo_mul(1 % p, a, p) == a && k_mfo_mul(a, 0, p) == 0 && k_mfo_mul(0, a, p) == 0;
    case 13: { int r = k_fzp_pte((int)p, (int)a, (int)b, (int)w); return r >= 0 && r < (int)p; }      /* + the ubsan traps (signed overflow) must be unreachable: this is what the 46337 bound is for */
    case 14: { int t = k_fzp_tm((int)p, (int)a, (int)b); return t >= 0 && t < (int)p; }
    case 15: { int r = k_fzp_pte((int)p, (int)a, (int)b, (int)w); return r == (int)(((int64_t)a + (int64_t)w * b) % p); }
    case 16: { int t = k_fzp_tm((int)p, (int)a, (int)b); return t == (int)((p - ((int64_t)a * b) % p) % p); }
    default: return 0; }
}
#endif
