// native side: the real kernels (g++), used (a) to replay CBMC counterexamples, (b) to validate the IR->C translation on random and boundary operands
#include "kernels.cpp"
#include "oblig.h"
#include <cstdio>
#include <cstdlib>
#include <cstring>
static uint64_t lcg(uint64_t& s) { s = s * 6364136223846793005ULL + 1442695040888963407ULL; return s >> 16; }
int main(int argc, char** argv) {
  if (argc >= 7 && !strcmp(argv[1], "replay")) { int ob = atoi(argv[2]); unsigned a = strtoul(argv[3], 0, 10), b = strtoul(argv[4], 0, 10), p = strtoul(argv[5], 0, 10), w = strtoul(argv[6], 0, 10);
    if (!ob_pre(ob, a, b, p, w)) { printf("PRE-FAILED\n"); return 77; } int ok = ob_check(ob, a, b, p, w); printf(ok ? "HOLDS\n" : "VIOLATED\n"); return ok ? 0 : 1; }
  uint64_t s = argc > 2 ? strtoull(argv[2], 0, 10) : 1; uint64_t h = 1469598103934665603ULL; static const unsigned bnd[] = {0, 1, 2, 3, 5, 7, 46337, 65521, 65535, 65536, 0x7fffffffu, 0x80000000u, 0xfffffffeu, 0xffffffffu};
  for (long it = 0; it < 200000; it++) { unsigned a = (unsigned)lcg(s), b = (unsigned)lcg(s), p = (unsigned)lcg(s), w = (unsigned)lcg(s);
    if (it % 3 == 0) { a = bnd[lcg(s) % 14]; } if (it % 5 == 0) p = bnd[2 + lcg(s) % 12]; if (it % 7 == 0) { p = 2 + p % 65534; a %= p; b %= p; w %= p; }
    if (p < 2) p = 2; unsigned q = p > 46337 ? 46337 : p;
    unsigned r[10] = {k_zpo_add(a % p, b % p, p), k_zpo_sub(a % p, b % p, p), k_zpo_mul(a % p, b % p, p), k_mfo_add(a % p, b % p, p), k_mfo_sub(a % p, b % p, p), k_mfo_mul(a % p, b % p, p), k_zpo_value_s((int)a, p & 0x7fffffffu ? p & 0x7fffffffu : 2), k_zpo_value_u(a, p),
      (unsigned)k_fzp_pte((int)q, (int)(a % q), (int)(b % q), (int)(w % q)), (unsigned)k_fzp_tm((int)q, (int)(a % q), (int)(b % q))};
    for (int i = 0; i < 10; i++) { h ^= r[i]; h *= 1099511628211ULL; } }
  printf("DIGEST %llu\n", (unsigned long long)h); return 0;
}
