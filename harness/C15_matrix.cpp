// C15 (matrices): copy / move / assignment / swap of Matrix<Options> give equal, independent objects (pool-allocated entries, row hooks, column settings).
#define VP_NEED_IDENT
#include "pm_common.h"
#include <utility>
static void diverge(Mat& x, int& n) { if (n > 1) { x.remove_last(); n--; } }
extern "C" void harness() {
  choose_filtration();
#if VP_Z2
  Mat* a = new Mat(M);
#else
  Mat* a = new Mat(M, VP_P);
#endif
  for (int j = 0; j < M; j++) insert_cell(*a, j);
  int na = M, nb = M; for (int i = 0; i < M; i++) idAtPos[i] = i;
#if VP_VINE   /* the source may carry a pending (lazy) row permutation: one admissible transposition right before it is copied / assigned / swapped */
  { int i = vp_fork_int(vp_int("preswap", -1, M - 2)); if (i >= 0) { int x = cell[i], y = cell[i + 1]; vp_assume((x & y) != x); a->vine_swap(i); cell[i] = y; cell[i + 1] = x; vp_reach("preswap"); } }
#endif
  int how = vp_fork_int(vp_int("how", 0, 5)); Mat* b = nullptr;
#ifdef VP_KF_MOVED
  vp_assume(how == 3 || how == 4);
#endif
  if (how == 0) { b = new Mat(*a); vp_reach("copy-ctor"); }
  else if (how == 1) {
#if VP_Z2
    b = new Mat(M);
#else
    b = new Mat(M, VP_P);
#endif
    b->insert_boundary(boundary_of(0), 0); *b = *a; vp_reach("copy-assign"); }
  else if (how == 2) { Mat& r = *a; *a = r; b = new Mat(*a); vp_reach("self-assign"); }
  else if (how == 3) { b = new Mat(std::move(*a)); na = 0; vp_reach("move-ctor"); }
  else if (how == 4) {
#if VP_Z2
    b = new Mat(M);
#else
    b = new Mat(M, VP_P);
#endif
    b->insert_boundary(boundary_of(0), 0); *b = std::move(*a); na = 0; vp_reach("move-assign"); }
  else {
#if VP_Z2
    b = new Mat(M);
#else
    b = new Mat(M, VP_P);
#endif
    swap(*a, *b); na = 0; vp_reach("swap"); }
  check_barcode(*b, nb, "the new matrix has the barcode of the source", "the new matrix has as many bars as the source");
#if VP_VINE
  check_identities(*b, nb);   // columns, pivots, zero tests and R = D U of the new object (reads through the row permutation)
  if (na) check_identities(*a, na);
#endif
  if (na) check_barcode(*a, na, "the source keeps its barcode", "the source keeps its bars");
  if (na) { if (vp_fork_int(vp_int("mutate", 0, 1))) { diverge(*a, na); vp_reach("mutate-source"); } else { diverge(*b, nb); vp_reach("mutate-copy"); }
    check_barcode(*a, na, "source follows its own history after divergence", "source bar count after divergence"); check_barcode(*b, nb, "copy follows its own history after divergence", "copy bar count after divergence");
    if (vp_fork_int(vp_int("destroy", 0, 1))) { delete a; a = nullptr; check_barcode(*b, nb, "destroying the source leaves the copy intact", "copy bar count after the source is destroyed"); }
    else { delete b; b = nullptr; check_barcode(*a, na, "destroying the copy leaves the source intact", "source bar count after the copy is destroyed"); } }
  else { vp_assert(a->get_number_of_columns() == 0, "a moved-from matrix is empty");
#ifdef VP_KF_MOVED
    // known finding: a moved-from Matrix has no column settings any more and cannot be used again
    for (int j = 0; j < M; j++) insert_cell(*a, j); check_barcode(*a, M, "a moved-from matrix is usable again", "bar count of the reused matrix");
#endif
    diverge(*b, nb); check_barcode(*b, nb, "the new owner follows its own history", "bar count of the new owner"); }
  delete a; delete b;
  vp_reach("end");
}
