// C18: persistence landscapes equal their definition and form a normed vector space.
// Symbolic: VP_M intervals per diagram with integer endpoints in [0,4] (repeated, nested, touching), forked to grid values by the solver; every level k,
// every evaluation point of the quarter grid (all breakpoints are half-integers). The library's arithmetic is then exact IEEE arithmetic on dyadic numbers,
// so values, integrals, p=1 / sup distances and inner products must match the definition EXACTLY.
#include "vp.h"
#include <gudhi/Persistence_landscape.h>
#include <gudhi/Persistence_landscape_on_grid.h>
#include <vector>
#include <cmath>
#ifndef VP_M
#define VP_M 2
#endif
#ifndef VP_NB
#define VP_NB 4
#endif
#ifndef VP_NL
#define VP_NL 3
#endif
#ifndef VP_L0
#define VP_L0 1
#endif
using Gudhi::Persistence_representations::Persistence_landscape; using Gudhi::Persistence_representations::Persistence_landscape_on_grid;
enum { M = VP_M, NT = 4 * 4 * 2 + 1 };   // evaluation points t = -? .. : quarters of [0,8]... we use [0,5] below
struct Diag { double b[M], d[M]; };
static double tent(double b, double d, double t) { double x = t - b < d - t ? t - b : d - t; return x > 0 ? x : 0.0; }
static double lam(const Diag& D, int k, double t) { double v[M]; for (int i = 0; i < M; i++) v[i] = tent(D.b[i], D.d[i], t); for (int i = 0; i < M; i++) for (int j = 0; j + 1 < M - i; j++) if (v[j] < v[j + 1]) { double q = v[j]; v[j] = v[j + 1]; v[j + 1] = q; } return k < M ? v[k] : 0.0; }
static void pick(Diag& D, std::vector<std::pair<double, double> >& v, const char* nb, const char* nl) { for (int i = 0; i < M; i++) { D.b[i] = vp_double_grid_forked(nb, 0.0, 1.0, VP_NB); double l = vp_double_grid_forked(nl, (double)VP_L0, 1.0, VP_NL); D.d[i] = D.b[i] + l; if (i) vp_assume(D.b[i - 1] < D.b[i] || (D.b[i - 1] == D.b[i] && D.d[i - 1] <= D.d[i])); v.push_back({D.b[i], D.d[i]}); } }
static bool close(double x, double y) { return std::fabs(x - y) <= 1e-9 * (1 + std::fabs(y)); }
// exact integral over [0,7] of a function that is quadratic on every half-integer cell: Simpson with quarter-point midpoints
template <class F> static double simpson(F f) { double s = 0; for (int c = 0; c < 14; c++) { double a = c * 0.5, m = a + 0.25, b = a + 0.5; s += (f(a) + 4 * f(m) + f(b)) * 0.5; } return s / 6.0; }
extern "C" void harness() {
  Diag A, B; std::vector<std::pair<double, double> > va, vb; pick(A, va, "b", "l");
  Persistence_landscape L(va);
#if VP_MODE == 0
  // ---- pointwise definition, every level, every quarter point of [-0.5, 7.5]
  for (int k = 0; k <= M; k++) for (int q = -2; q <= 30; q++) { double t = q * 0.25; vp_assert(L.compute_value_at_a_given_point(k, t) == lam(A, k, t), "lambda_k(t) = k-th largest of max(0, min(t-b, d-t))"); }
  vp_assert((int)L.size() <= M, "no more levels than intervals");
  { double e = 0; for (int k = 0; k < M; k++) e += simpson([&](double t) { return lam(A, k, t); }); vp_assert(L.compute_integral_of_landscape() == e, "integral of the landscape = sum over levels of the integrals");
    for (int k = 0; k < (int)L.size(); k++) vp_assert(L.compute_integral_of_a_level_of_a_landscape(k) == simpson([&](double t) { return lam(A, k, t); }), "integral of one level"); }
  { double mx = 0; for (int q = 0; q <= 28; q++) if (lam(A, 0, q * 0.25) > mx) mx = lam(A, 0, q * 0.25); vp_assert(L.compute_maximum() == mx, "maximum of the landscape"); }
  // gridded form: grid-aligned diagram, grid [0,7] with step 0.5 -> exact at and between grid points (linear interpolation of a piecewise linear function with breakpoints on the grid)
  { Persistence_landscape_on_grid G(va, 0.0, 7.0, 14); for (int k = 0; k < M; k++) for (int q = 0; q <= 28; q++) { double t = q * 0.25; vp_assert(G.compute_value_at_a_given_point(k, t) == lam(A, k, t), "gridded landscape: value at and between grid points"); } }
  vp_reach("pointwise");
#else
  pick(B, vb, "b2", "l2"); Persistence_landscape L2(vb);
  // ---- vector space operations are pointwise
  { Persistence_landscape S = L + L2, Dif = L - L2, Sc = L * 3.0, Ab = Dif.abs();
    for (int k = 0; k < M; k++) for (int q = 0; q <= 28; q++) { double t = q * 0.25; double x = lam(A, k, t), y = lam(B, k, t);
      vp_assert(S.compute_value_at_a_given_point(k, t) == x + y, "sum is pointwise"); vp_assert(Dif.compute_value_at_a_given_point(k, t) == x - y, "difference is pointwise");
      vp_assert(Sc.compute_value_at_a_given_point(k, t) == 3.0 * x, "scalar multiple is pointwise"); vp_assert(Ab.compute_value_at_a_given_point(k, t) == std::fabs(x - y), "absolute value is pointwise"); } }
  // ---- distances and inner product are the integrals
  { double d1 = 0, dsup = 0, ip = 0, d2sq = 0; for (int k = 0; k < M; k++) { d1 += simpson([&](double t) { return std::fabs(lam(A, k, t) - lam(B, k, t)); }); ip += simpson([&](double t) { return lam(A, k, t) * lam(B, k, t); }); d2sq += simpson([&](double t) { double z = lam(A, k, t) - lam(B, k, t); return z * z; });
      for (int q = 0; q <= 28; q++) { double z = std::fabs(lam(A, k, q * 0.25) - lam(B, k, q * 0.25)); if (z > dsup) dsup = z; } }
    vp_assert(compute_distance_of_landscapes(L, L2, 1) == d1, "L^1 distance = integral of |difference|"); vp_assert(compute_max_norm_distance_of_landscapes(L, L2) == dsup, "sup distance");
    vp_assert(close(compute_inner_product(L, L2), ip), "inner product = integral of the product (thirds are not dyadic: relative 1e-9)"); double d2 = compute_distance_of_landscapes(L, L2, 2); vp_assert(std::fabs(d2 * d2 - d2sq) <= 1e-9 * (1 + d2sq), "L^2 distance squared = integral of the squared difference");
    vp_assert(compute_distance_of_landscapes(L2, L, 1) == d1 && compute_max_norm_distance_of_landscapes(L2, L) == dsup && close(compute_inner_product(L2, L), ip), "distances and inner product are symmetric");
    vp_assert(compute_distance_of_landscapes(L, L, 1) == 0 && compute_max_norm_distance_of_landscapes(L, L) == 0, "distance to itself is zero");
    Persistence_landscape Z; std::vector<std::pair<double, double> > none; double n1 = compute_distance_of_landscapes(L, Persistence_landscape(none), 1), n2 = compute_distance_of_landscapes(L2, Persistence_landscape(none), 1); vp_assert(d1 <= n1 + n2, "triangle inequality through the zero landscape");
    { Persistence_landscape S = L + L2; vp_assert(close(compute_inner_product(S, L), compute_inner_product(L, L) + ip), "inner product is additive"); vp_assert(close(compute_inner_product(L * 2.0, L2), 2.0 * ip), "inner product is homogeneous"); } }
  { Persistence_landscape Avg; std::vector<Persistence_landscape*> v2; v2.push_back(&L); v2.push_back(&L2); Avg.compute_average(v2); for (int k = 0; k < M; k++) for (int q = 0; q <= 28; q++) { double t = q * 0.25; vp_assert(Avg.compute_value_at_a_given_point(k, t) == (lam(A, k, t) + lam(B, k, t)) * 0.5, "average is pointwise"); } }
  vp_reach("algebra");
#if VP_MODE == 2
  // ---- the gridded class: vector space operations at and between grid points, sup distance / sup norm also of differences and negative multiples
  { const double big = std::numeric_limits<double>::max(); std::vector<std::pair<double, double> > none;
    Persistence_landscape_on_grid G1(va, 0.0, 7.0, 14), G2(vb, 0.0, 7.0, 14), Z(none, 0.0, 7.0, 14); Persistence_landscape_on_grid S = G1 + G2, Dif = G1 - G2, Neg = G1 * (-2.0);
    double dsup = 0, n1 = 0;
    for (int k = 0; k < M; k++) for (int q = 0; q <= 28; q++) { double t = q * 0.25; double x = lam(A, k, t), y = lam(B, k, t);
      vp_assert(S.compute_value_at_a_given_point(k, t) == x + y, "gridded: sum is pointwise"); vp_assert(Dif.compute_value_at_a_given_point(k, t) == x - y, "gridded: difference is pointwise");
      vp_assert(Neg.compute_value_at_a_given_point(k, t) == -2.0 * x, "gridded: scalar multiple is pointwise");
      if (std::fabs(x - y) > dsup) dsup = std::fabs(x - y); if (x > n1) n1 = x; }
    vp_assert(compute_max_norm_distance_of_landscapes(G1, G2) == dsup && compute_max_norm_distance_of_landscapes(G2, G1) == dsup, "gridded: sup distance (symmetric)");
    vp_assert(compute_max_norm_distance_of_landscapes(Dif, Z) == dsup && compute_max_norm_distance_of_landscapes(Z, Dif) == dsup, "gridded: sup distance of a difference to zero = sup distance of the two landscapes");
    vp_assert(Dif.compute_norm_of_landscape(big) == dsup, "gridded: sup norm of a difference"); vp_assert((G2 - G1).compute_norm_of_landscape(big) == dsup, "gridded: sup norm of the opposite difference");
    vp_assert(Neg.compute_norm_of_landscape(big) == 2.0 * n1, "gridded: sup norm is absolutely homogeneous"); vp_assert(compute_max_norm_distance_of_landscapes(G1, G1) == 0, "gridded: distance to itself");
    vp_reach("gridded-algebra"); }
#endif
#endif
  vp_reach("end");
}
