// C17: skeleton-blocker complexes track the abstract complex through edits; blockers = minimal non-faces; contraction under the link
// condition preserves Betti numbers and the Euler characteristic.
// Symbolic: VP_K edit operations over VP_N vertices (structure forked by the solver). Oracle: present[2^n] + dense GF(2) homology.
#include "vp.h"
#include <gudhi/Skeleton_blocker.h>
#include <vector>
#ifndef VP_N
#define VP_N 4
#endif
#ifndef VP_K
#define VP_K 3
#endif
typedef Gudhi::skeleton_blocker::Skeleton_blocker_complex<Gudhi::skeleton_blocker::Skeleton_blocker_simple_traits> Complex;
typedef Complex::Vertex_handle VH; typedef Complex::Simplex Simplex;
enum { N = VP_N, NS = 1 << VP_N };
static bool present[NS];
static int pcnt(int m) { return __builtin_popcount(m); }
static Simplex simp(int m) { Simplex s; for (int i = 0; i < N; i++) if (m >> i & 1) s.add_vertex(VH(i)); return s; }
static int mask_of(const Simplex& s) { int m = 0; for (auto v : s) m |= 1 << (int)v.vertex; return m; }
static bool all_proper_faces(const bool* p, int m) { for (int i = 0; i < N; i++) if ((m >> i & 1) && (m & ~(1 << i)) && !p[m & ~(1 << i)]) return false; return true; }
// Betti numbers over GF(2) of a complex given by p[] on vertices 0..N-1 (bitmask Gaussian elimination, <= 2^N simplices)
static void betti(const bool* p, int* b, int* euler) {
  int idx[NS], ns = 0; int list[NS]; for (int m = 1; m < NS; m++) if (p[m]) { idx[m] = ns; list[ns++] = m; }
  int rankd[N + 2]; for (int d = 0; d <= N + 1; d++) rankd[d] = 0; int cntd[N + 2]; for (int d = 0; d <= N + 1; d++) cntd[d] = 0;
  for (int d = 1; d < N; d++) { unsigned rows[NS]; int k = 0; for (int q = 0; q < ns; q++) if (pcnt(list[q]) == d + 1) { unsigned r = 0; int m = list[q]; for (int i = 0; i < N; i++) if (m >> i & 1) r |= 1u << idx[m & ~(1 << i)]; rows[k++] = r; }
    int rk = 0; for (int bit = 0; bit < ns; bit++) { int pv = -1; for (int i = rk; i < k; i++) if (rows[i] >> bit & 1) { pv = i; break; } if (pv < 0) continue; unsigned t = rows[pv]; rows[pv] = rows[rk]; rows[rk] = t; for (int i = 0; i < k; i++) if (i != rk && (rows[i] >> bit & 1)) rows[i] ^= rows[rk]; rk++; } rankd[d] = rk; }
  *euler = 0; for (int q = 0; q < ns; q++) { cntd[pcnt(list[q]) - 1]++; *euler += (pcnt(list[q]) & 1) ? 1 : -1; }
  for (int d = 0; d < N; d++) b[d] = cntd[d] - rankd[d] - rankd[d + 1];
}
static void observe(Complex& c) {
  int cnt = 0;
  for (int s = 1; s < NS; s++) { bool in = c.contains(simp(s)); vp_assert(in == present[s], "contains == abstract complex"); if (present[s]) cnt++;
    bool minimal_nonface = !present[s] && pcnt(s) >= 3 && all_proper_faces(present, s);
    vp_assert(c.contains_blocker(simp(s)) == minimal_nonface, "blockers are exactly the minimal non-faces whose proper faces are all present"); }
  { int nb = 0; for (auto bl : c.const_blocker_range()) { int m = mask_of(*bl); vp_assert(!present[m] && pcnt(m) >= 3 && all_proper_faces(present, m), "every stored blocker is a minimal non-face"); nb++; }
    int exp = 0; for (int s = 1; s < NS; s++) if (!present[s] && pcnt(s) >= 3 && all_proper_faces(present, s)) exp++; vp_assert(nb == exp, "number of blockers"); }
  vp_assert((int)c.num_simplices() == cnt, "num_simplices");
  { int seen[NS]; for (int s = 0; s < NS; s++) seen[s] = 0; for (const auto& sg : c.complex_simplex_range()) { int m = mask_of(sg); if (m > 0 && m < NS) seen[m]++; } for (int s = 1; s < NS; s++) vp_assert(seen[s] == (present[s] ? 1 : 0), "complex_simplex_range lists each simplex once"); }
  vp_observe((uint64_t)cnt);
}
extern "C" void harness() {
  Complex c; for (int i = 0; i < N; i++) c.add_vertex(); for (int s = 0; s < NS; s++) present[s] = false; for (int i = 0; i < N; i++) present[1 << i] = true;
#ifdef VP_START_FULL
  for (int i = 0; i < N; i++) for (int j = i + 1; j < N; j++) c.add_edge_without_blockers(VH(i), VH(j)); for (int s = 1; s < NS; s++) present[s] = true;
#endif
#ifdef VP_START_GRAPH   /* arbitrary start state: the flag complex of a solver-chosen graph (built edge by edge, state construction is not under test) */
  for (int i = 0; i < N; i++) for (int j = i + 1; j < N; j++) if (vp_fork_int(vp_int("edge", 0, 1))) { int m = 1 << i | 1 << j; c.add_edge_without_blockers(VH(i), VH(j)); present[m] = true; }
  for (int sz = 3; sz <= N; sz++) for (int s = 1; s < NS; s++) if (pcnt(s) == sz && all_proper_faces(present, s)) present[s] = true;   // flag complex: every clique
#endif
  observe(c);
  for (int step = 0; step < VP_K; step++) {
    int kind = vp_fork_int(vp_int("kind", 0, 4)), m = vp_fork_int(vp_int("mask", 1, NS - 1));
    if (kind == 0) { vp_assume(pcnt(m) == 2 && !present[m]); int a = __builtin_ctz(m), b = __builtin_ctz(m & (m - 1)); vp_assume(present[1 << a] && present[1 << b]); c.add_edge(VH(a), VH(b)); present[m] = true; vp_reach("add_edge"); }
    else if (kind == 1) { vp_assume(pcnt(m) == 2 && !present[m]); int a = __builtin_ctz(m), b = __builtin_ctz(m & (m - 1)); vp_assume(present[1 << a] && present[1 << b]); c.add_edge_without_blockers(VH(a), VH(b)); present[m] = true;
      for (int sz = 3; sz <= N; sz++) for (int s = 1; s < NS; s++) if (pcnt(s) == sz && (s & m) == m && !present[s] && all_proper_faces(present, s)) {
        bool blocked = false; for (int t = 1; t < NS; t++) if ((t & s) == t && (t & m) != m && !present[t]) blocked = true;   // a face not through the new edge that is missing keeps s out
        if (!blocked) present[s] = true; }
      vp_reach("add_edge_without_blockers"); }
    else if (kind == 2) { vp_assume(pcnt(m) >= 3 && !present[m]); for (int i = 0; i < N; i++) if (m >> i & 1) vp_assume(present[1 << i]); c.add_simplex(simp(m)); for (int s = 1; s < NS; s++) if ((s & m) == s) present[s] = true; vp_reach("add_simplex"); }
    else if (kind == 3) { vp_assume(present[m]);
      { // known finding (pinned by the repository's own unit test collapse3): removing the star of a vertex or an edge turns the rest of every blocker containing it
        // (of dimension >= 2 more) into a new blocker although that face stays in the complex
        bool region = false; if (pcnt(m) <= 2) for (int t = 1; t < NS; t++) if (!present[t] && pcnt(t) >= 3 && all_proper_faces(present, t) && (t & m) == m && pcnt(t) - pcnt(m) >= 2) region = true;
#ifdef VP_KF_STAR
        if (step == VP_K - 1) vp_assume(region);   // every surviving path of the known-finding unit ends with an operation in the region
#else
        vp_assume(!region);
#endif
      }
      c.remove_star(simp(m)); for (int s = 1; s < NS; s++) if ((s & m) == m) present[s] = false; vp_reach("remove_star"); }
    else { vp_assume(pcnt(m) == 2 && present[m]); int a = __builtin_ctz(m), b = __builtin_ctz(m & (m - 1));
      if (!c.link_condition(VH(a), VH(b))) { vp_reach("link-condition-fails"); vp_assume(false); }
      int b0[N + 1], e0, b1[N + 1], e1; betti(present, b0, &e0);
      c.contract_edge(VH(a), VH(b));
      bool np[NS]; for (int s = 0; s < NS; s++) np[s] = false; for (int s = 1; s < NS; s++) if (present[s]) { int t = s; if (t >> b & 1) { t &= ~(1 << b); t |= 1 << a; } np[t] = true; }   // image complex under b -> a
      betti(np, b1, &e1); bool same = e0 == e1; for (int d = 0; d < N; d++) if (b0[d] != b1[d]) same = false;
      vp_assert(same, "oracle: contraction under the link condition preserves Betti numbers and Euler characteristic of the abstract complex");
      for (int s = 0; s < NS; s++) present[s] = np[s];
      vp_assert(!c.contains_vertex(VH(b)) && c.contains_vertex(VH(a)), "contraction removes one endpoint and keeps the other");
      vp_reach("contract_edge"); }
    observe(c);
  }
  vp_reach("end");
}
