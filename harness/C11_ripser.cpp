// C11: Ripser computes the persistence of the Rips filtration, for every input form and simplex encoding.
// Symbolic: the n(n-1)/2 dissimilarities on a float grid (ties, no triangle inequality), the threshold (incl. below the smallest distance and +inf),
// dim_max, the input form, the simplex encoding; the modulus is concrete per unit. Oracle: dense Z_p persistence of the flag filtration truncated at the threshold.
#include "vp.h"
#include <gudhi/ripser.h>
#include <vector>
#include <limits>
#ifndef VP_N
#define VP_N 4
#endif
#ifndef VP_P
#define VP_P 2
#endif
#ifndef VP_DMAX
#define VP_DMAX 3
#endif
#ifndef VP_PAD
#define VP_PAD 0      // number of isolated padding vertices placed BEFORE the active ones (sparse form only): large vertex ids => simplex indices beyond 32 bits
#endif
#ifndef VP_DLO
#define VP_DLO 1      // smallest off-diagonal dissimilarity of the grid; 0 = zero entries between distinct points allowed (non-metric input)
#endif
#ifndef VP_PADGAP
#define VP_PADGAP 1   // active point i is vertex VP_PAD + i*VP_PADGAP (isolated vertices in between): the active labels differ in their high bits
#endif
enum { N = VP_N, NS = 1 << VP_N, P = VP_P, NV = VP_DMAX + 2 };   // values 1..VP_DMAX, index VP_DMAX+1 = +inf
static int pcnt(int m) { return __builtin_popcount(m); }
static int inv_mod(int a) { a %= P; for (int x = 1; x < P; x++) if (a * x % P == 1) return x; return 0; }
struct Diagram { int cnt[N][NV][NV]; };
// persistence over Z_P of the flag complex of the graph w (value or -1), simplices of dimension <= maxd + 1 (so that dimension maxd is complete), zero-length pairs dropped
static void flag_persistence(const int w[N][N], int maxd, Diagram& D) {
  for (int d = 0; d < N; d++) for (int b = 0; b < NV; b++) for (int e = 0; e < NV; e++) D.cnt[d][b][e] = 0;
  int val[NS]; bool in[NS];
  for (int m = 1; m < NS; m++) { in[m] = pcnt(m) - 1 <= maxd + 1; val[m] = 0; for (int i = 0; i < N; i++) for (int j = i + 1; j < N; j++) if ((m >> i & 1) && (m >> j & 1)) { if (w[i][j] < 0) in[m] = false; else if (w[i][j] > val[m]) val[m] = w[i][j]; } }
  int ord[NS], n = 0; for (int m = 1; m < NS; m++) if (in[m]) ord[n++] = m;
  for (int a = 0; a < n; a++) for (int b = 0; b + 1 < n - a; b++) { int x = ord[b], y = ord[b + 1]; bool gt = val[x] > val[y] || (val[x] == val[y] && (pcnt(x) > pcnt(y) || (pcnt(x) == pcnt(y) && x > y))); if (gt) { ord[b] = y; ord[b + 1] = x; } }
  int pos[NS]; for (int i = 0; i < n; i++) pos[ord[i]] = i;
  static int M[NS][NS]; for (int i = 0; i < n; i++) for (int j = 0; j < n; j++) M[i][j] = 0;
  for (int j = 0; j < n; j++) { int m = ord[j]; if (pcnt(m) > 1) { int sign = 1; for (int v = 0; v < N; v++) if (m >> v & 1) { M[pos[m & ~(1 << v)]][j] = sign == 1 ? 1 : P - 1; sign = -sign; } } }
  int low[NS]; bool paired[NS]; for (int j = 0; j < n; j++) paired[j] = false;
  for (int j = 0; j < n; j++) { while (true) { int l = -1; for (int r = n - 1; r >= 0; r--) if (M[r][j]) { l = r; break; } low[j] = l; if (l < 0) break; int k = -1; for (int q = 0; q < j; q++) if (low[q] == l) { k = q; break; } if (k < 0) break;
      int c = M[l][j] * inv_mod(M[l][k]) % P; for (int r = 0; r < n; r++) M[r][j] = ((M[r][j] - c * M[r][k]) % P + P) % P; }
    if (low[j] >= 0) { paired[low[j]] = true; paired[j] = true; int b = val[ord[low[j]]], e = val[ord[j]]; int dim = pcnt(ord[low[j]]) - 1; if (b < e && dim <= maxd) D.cnt[dim][b][e]++; } }
  for (int j = 0; j < n; j++) if (!paired[j] && pcnt(ord[j]) - 1 <= maxd) D.cnt[pcnt(ord[j]) - 1][val[ord[j]]][NV - 1]++;
}
typedef Gudhi::ripser::TParams2<float> DP;
extern "C" void harness() {
  float d[N][N]; int di[N][N];
  for (int i = 0; i < N; i++) for (int j = 0; j < i; j++) { 
#ifdef VP_FORKD   /* one path per concrete dissimilarity matrix (enumerated by the solver) */
    float x = (float)vp_double_grid_forked("d", (double)VP_DLO, 1.0, VP_DMAX - VP_DLO + 1);
#else
    float x = (float)vp_double_grid("d", (double)VP_DLO, 1.0, VP_DMAX - VP_DLO + 1);
#endif
    int xi = 0; for (int q = VP_DLO; q <= VP_DMAX; q++) if (x == (float)q) xi = q; d[i][j] = d[j][i] = x; di[i][j] = di[j][i] = xi; }
  for (int i = 0; i < N; i++) { d[i][i] = 0; di[i][i] = 0; }
  const float inf = std::numeric_limits<float>::infinity();
#if VP_PAD
  int ti = vp_fork_int(vp_int("thr", 1, VP_DMAX + 1)); 
#ifdef VP_PADDIM
  int dim_max = VP_PADDIM;
#else
  int dim_max = vp_fork_int(vp_int("dim_max", 1, N - 2));
#endif
  int form = 3; int enc = vp_fork_int(vp_int("enc", 0, 3));
#elif defined(VP_CROSS)
  int ti = vp_fork_int(vp_int("thr", 0, VP_DMAX + 1)); int dim_max = vp_fork_int(vp_int("dim_max", 0, N - 2)); int form = vp_fork_int(vp_int("form", 0, 3)); int enc = vp_fork_int(vp_int("enc", 0, 3));
#else
  // covering design instead of the full cross product: every (form, encoding) pair, every (threshold, dim_max) pair and every (form, threshold) pair occurs in one of the configurations
  int c = vp_fork_int(vp_int("config", 0, 4 * (VP_DMAX + 2) - 1 + 16)); int form, enc, ti, dim_max;
  if (c < 16) { form = c % 4; enc = c / 4; ti = (c * 3 + c / 4) % (VP_DMAX + 2); dim_max = (c + c / 4) % (N - 1); }
  else { int q = c - 16; form = q % 4; ti = q / 4; enc = (q + q / 4) % 4; dim_max = (q / 4 + q) % (N - 1); }
#endif
  float thr = ti == 0 ? 0.5f : ti == VP_DMAX + 1 ? inf : (float)ti;
  // ---- run Ripser
  Diagram G; for (int a = 0; a < N; a++) for (int b = 0; b < NV; b++) for (int e = 0; e < NV; e++) G.cnt[a][b][e] = 0; int curdim = -1; bool bad = false;
  auto odim = [&](int dim) { curdim = dim; };
  auto opair = [&](float b, float e) { if (!(b < e)) return; int bi = -1, ei = -1; for (int q = 0; q <= VP_DMAX; q++) { if (b == (float)q) bi = q; if (e == (float)q) ei = q; } if (e == inf) ei = NV - 1; if (bi < 0 || ei < 0 || curdim < 0 || curdim >= N) { bad = true; return; } G.cnt[curdim][bi][ei]++; };
  using namespace Gudhi::ripser;
  auto run = [&](auto&& dist) {
    typedef std::decay_t<decltype(dist)> DM;
    if (enc == 0) ripser_auto(std::move(dist), dim_max, thr, P, odim, opair);
    else { // force each simplex encoding through the public template parameters (dense/sparse matrix as given, threshold as the dispatcher would pass it)
      float t2 = thr; if constexpr (!std::is_same_v<typename DM::Category, Tag_sparse>) { if (!(thr < std::numeric_limits<float>::max())) { for (int i = 0; i < N; i++) { float r = -inf; for (int j = 0; j < N; j++) r = std::max(r, dist(i, j)); t2 = std::min(t2, r); } } }
      if (enc == 1) { typedef TParams<VP_P != 2, uint64_t, float> PP; help2<PP, Bitfield_encoding<PP> >(std::move(dist), dim_max, t2, P, odim, opair); }
      else if (enc == 2) { typedef TParams<VP_P != 2, Gudhi::numbers::uint128_t, float> PP; help2<PP, Bitfield_encoding<PP> >(std::move(dist), dim_max, t2, P, odim, opair); }
      else { typedef TParams<VP_P != 2, Gudhi::numbers::uint128_t, float> PP; help2<PP, Cns_encoding<PP> >(std::move(dist), dim_max, t2, P, odim, opair); } } };
  if (form == 0) { std::vector<float> v; for (int i = 0; i < N; i++) for (int j = 0; j < i; j++) v.push_back(d[i][j]); Compressed_distance_matrix<DP, LOWER_TRIANGULAR> m(std::move(v)); Full_distance_matrix<DP> f(m); run(std::move(f)); vp_reach("full"); }
  else if (form == 1) { std::vector<float> v; for (int i = 0; i < N; i++) for (int j = 0; j < i; j++) v.push_back(d[i][j]); run(Compressed_distance_matrix<DP, LOWER_TRIANGULAR>(std::move(v))); vp_reach("lower"); }
  else if (form == 2) { std::vector<float> v; for (int i = 0; i < N; i++) for (int j = i + 1; j < N; j++) v.push_back(d[i][j]); run(Compressed_distance_matrix<DP, UPPER_TRIANGULAR>(std::move(v))); vp_reach("upper"); }
  else { std::vector<std::vector<Sparse_distance_matrix<DP>::vertex_diameter_t> > nb(VP_PAD ? VP_PAD + (N - 1) * VP_PADGAP + 1 : N); std::size_t ne = 0; for (int i = 0; i < N; i++) for (int j = 0; j < N; j++) if (i != j && d[i][j] <= thr) { nb[VP_PAD + i * VP_PADGAP].emplace_back(VP_PAD + j * VP_PADGAP, d[i][j]); ne++; }
    run(Sparse_distance_matrix<DP>(std::move(nb), ne)); vp_reach("sparse"); }
  vp_assert(!bad, "every streamed interval has grid endpoints and a valid dimension");
  // ---- oracle: flag filtration truncated at the threshold (no threshold: the full filtration; beyond the enclosing radius the complex is a cone)
  int w[N][N]; for (int i = 0; i < N; i++) for (int j = 0; j < N; j++) w[i][j] = (i != j && (float)di[i][j] <= thr) ? di[i][j] : -1;
  Diagram O; flag_persistence(w, dim_max, O);
  O.cnt[0][0][NV - 1] += VP_PAD ? VP_PAD + (N - 1) * VP_PADGAP + 1 - N : 0;   // every isolated padding vertex is an essential component
  for (int a = 0; a <= dim_max; a++) for (int b = 0; b < NV; b++) for (int e = 0; e < NV; e++) vp_assert(G.cnt[a][b][e] == O.cnt[a][b][e], "Ripser intervals = barcode of the Rips flag filtration truncated at the threshold");
  for (int a = dim_max + 1; a < N; a++) for (int b = 0; b < NV; b++) for (int e = 0; e < NV; e++) vp_assert(G.cnt[a][b][e] == 0, "nothing is reported above dim_max");
  vp_reach("end");
}
