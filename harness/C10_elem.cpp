// C10: field *element* classes compute exact arithmetic modulo M (a prime, or the product of the primes of a range).
// VP_KIND: 1 Zp_field_element<VP_P>, 2 Shared_Zp_field_element<> (initialize(VP_P)), 3 Z2_field_element,
//          4 Multi_field_element_with_small_characteristics<VP_LO,VP_HI>, 5 Shared_multi_field_element_with_small_characteristics<> (initialize(VP_LO,VP_HI))
// One law per path group (selector "law"), operands fully symbolic 32-bit unless stated.
#include "vp.h"
#include <cstdint>
#include <gudhi/Fields/Zp_field.h>
#include <gudhi/Fields/Zp_field_shared.h>
#include <gudhi/Fields/Z2_field.h>
#include <gudhi/Fields/Multi_field_small.h>
#include <gudhi/Fields/Multi_field_small_shared.h>
using namespace Gudhi::persistence_fields;
#ifndef VP_P
#define VP_P 5
#endif
#ifndef VP_LO
#define VP_LO 2
#endif
#ifndef VP_HI
#define VP_HI 5
#endif
static const unsigned all_primes[] = {2, 3, 5, 7, 11, 13, 17, 19, 23, 29, 31};
#if VP_KIND == 1
typedef Zp_field_element<VP_P> E; static const unsigned M = VP_P; static void init() {}
#define VP_FIELD 1
#elif VP_KIND == 2
typedef Shared_Zp_field_element<> E; static const unsigned M = VP_P; static void init() { E::initialize(VP_P); }
#define VP_FIELD 1
#elif VP_KIND == 3
typedef Z2_field_element E; static const unsigned M = 2; static void init() {}
#define VP_FIELD 1
#elif VP_KIND == 4
typedef Multi_field_element_with_small_characteristics<VP_LO, VP_HI> E; static void init() {}
#define VP_FIELD 0
#else
typedef Shared_multi_field_element_with_small_characteristics<> E; static void init() { E::initialize(VP_LO, VP_HI); }
#define VP_FIELD 0
#endif
#if !VP_FIELD
static unsigned prodrange() { unsigned m = 1; for (unsigned p : all_primes) if (p >= VP_LO && p <= VP_HI) m *= p; return m; }
static const unsigned M = prodrange();
#endif
static unsigned rs(int s) { int m = s % (int)M; if (m < 0) m += (int)M; return (unsigned)m; }   // exact: |s % M| < M, no overflow for any int
static unsigned addm(unsigned x, unsigned y) { unsigned t = x + y; while (t >= M) t -= M; return t; }   // x,y <= M: at most two subtractions
// "wide" operands: fully symbolic 32-bit values under VP_FULLSYM (thorough, small p: the solver must reason through 32-bit dividers);
// otherwise solver-forked concrete values from windows of width 4M+3 around 0, 2^16, 2^31 and 2^32 (all wrap-around and sign boundaries)
static unsigned wide_u(const char* n) {
#ifdef VP_FULLSYM
  return vp_u32(n);
#else
  static const unsigned base[] = {0u, 65536u, 0x7fffffffu - 2 * M, 0x80000000u, 0xffffffffu - (4 * M + 2)};
  int k = vp_fork_int(vp_int(n, 0, 4)), d = vp_fork_int(vp_int(n, 0, (int)(4 * M + 2))); return base[k] + (unsigned)d;
#endif
}
static int wide_s(const char* n) {
#ifdef VP_FULLSYM
  return (int)vp_u32(n);
#else
  static const int base[] = {-(int)(2 * M + 1), 65536, 2147483647 - (int)(4 * M + 2), -2147483647 - 1, -65536 - (int)(2 * M)};
  int k = vp_fork_int(vp_int(n, 0, 4)), d = vp_fork_int(vp_int(n, 0, (int)(4 * M + 2))); return base[k] + d;
#endif
}
static unsigned val(const E& e) { return (unsigned)e; }
extern "C" void harness() {
  init();
  vp_assert((unsigned)E::get_characteristic() == M, "characteristic");
#ifdef VP_LAW
  int law = VP_LAW;
#else
  int law = vp_int("law", 0, 6);
#endif
  if (law == 0) {          // conversion of any machine integer
    if (vp_fork_int(vp_int("signed", 0, 1))) { int s = wide_s("s");
      vp_assert(val(E(s)) == rs(s), "residue of a signed int"); E x; x = s; vp_assert(val(x) == rs(s), "assignment from a signed int"); }
    else { unsigned u = wide_u("u"); vp_assert(val(E(u)) == u % M, "residue of an unsigned int"); E x; x = u; vp_assert(val(x) == u % M, "assignment from an unsigned int"); }
    vp_assert(val(E::get_additive_identity()) == 0 && val(E::get_multiplicative_identity()) == 1 % M, "identities");
    vp_reach("conv");
  } else if (law == 1) {   // addition / subtraction: element operands are reduced by construction (every pair in [0,M)^2); the integer operand is wide
    unsigned ra = (unsigned)vp_fork_int(vp_int("a", 0, (int)M - 1)); E x(ra);
    if (vp_fork_int(vp_int("mixed", 0, 2)) == 0) { unsigned rb = (unsigned)vp_fork_int(vp_int("b", 0, (int)M - 1)); E y(rb);
      vp_assert(val(x + y) == addm(ra, rb), "a+b"); vp_assert(val(x - y) == addm(ra, M - rb), "a-b");
      E z(ra); z += y; z -= y; vp_assert(val(z) == ra, "+= then -= is the identity"); }
    else if (vp_fork_int(vp_int("sgn", 0, 1))) { int s = wide_s("s"); unsigned rss = rs(s);
      vp_assert(val(x + s) == addm(ra, rss), "a+int"); vp_assert(val(x - s) == addm(ra, M - rss), "a-int"); }
    else { unsigned b = wide_u("b"), rb = b % M;
      vp_assert(val(x + b) == addm(ra, rb), "a+unsigned"); vp_assert((unsigned)(b + x) == addm(ra, rb), "unsigned+a"); vp_assert((unsigned)(b - x) == addm(rb, M - ra), "unsigned-a"); }
    vp_reach("addsub");
  } else if (law == 2) {   // multiplication (reduced symbolic operands; the shift-and-add loop runs over the bits of a)
    // both reduced operands are forked to concrete values by the solver (every pair in [0,M)^2 is covered); the unreduced operand u stays symbolic
    unsigned a = (unsigned)vp_fork_int(vp_int("a", 0, (int)M - 1)), b = (unsigned)vp_fork_int(vp_int("b", 0, (int)M - 1)); int qi = vp_fork_int(vp_int("q", 0, 3));
    unsigned qmax = (0xffffffffu - b) / M, q = qi == 0 ? 0 : qi == 1 ? 1 : qi == 2 ? qmax / 2 : qmax; unsigned u = q * M + b;   // unreduced operands congruent to b (smallest, next, middle, largest 32-bit); law 0 covers the reduction itself for every u
    E x(a), y(b); unsigned e = (unsigned)(((uint64_t)a * b) % M);
    vp_assert(val(x * y) == e, "a*b"); vp_assert(val(y * x) == e, "b*a");
    E z(a); z *= u; vp_assert(val(z) == e, "*= unreduced unsigned");
    vp_assert((unsigned)(u * x) == e, "unreduced unsigned * a");
    vp_reach("mul");
  } else if (law == 3) {   // multiplication by a signed integer (both forked to concrete values; conversion of arbitrary values is law 0)
    int sv = vp_fork_int(vp_int("s", -(int)(2 * M + 1), (int)(2 * M + 1))); unsigned b = (unsigned)vp_fork_int(vp_int("b", 0, (int)M - 1));
    E y(b);
    vp_assert(val(y * sv) == (unsigned)(((uint64_t)rs(sv) * b) % M), "b*int");
    vp_reach("mulint");
  } else if (law == 4) {   // comparisons are by residue
    unsigned a = wide_u("a");
    if (vp_fork_int(vp_int("which", 0, 1))) { unsigned rb = (unsigned)vp_fork_int(vp_int("b", 0, (int)M - 1)); unsigned q = (unsigned)vp_fork_int(vp_int("q", 0, 2)); unsigned b = rb + q * M;
      vp_assert((E(a) == E(b)) == (a % M == rb), "== by residue"); vp_assert((E(a) != E(b)) == (a % M != rb), "!= by residue"); vp_assert((b == E(a)) == (a % M == rb), "unsigned == element"); }
    else { int s = vp_fork_int(vp_int("s", -(int)(2 * M + 1), (int)(2 * M + 1))); vp_assert((E(a) == s) == (a % M == rs(s)), "== signed int"); }
    vp_reach("cmp");
  } else if (law == 5) {   // inverse
    unsigned a = (unsigned)vp_fork_int(vp_int("a", 0, (int)M - 1)); E x(a); E inv = x.get_inverse();
#if VP_FIELD
    if (a != 0) vp_assert(val(x * inv) == 1, "x * inverse(x) == 1"); else vp_reach("inverse-of-zero");
    vp_assert(val(inv) < M, "inverse is reduced");
#else
    for (unsigned p : all_primes) if (p >= VP_LO && p <= VP_HI) { if (a % p != 0) vp_assert((val(inv) % p) * (a % p) % p == 1, "inverse modulo each prime where x is invertible"); else vp_assert(val(inv) % p == 0, "zero modulo the primes dividing x"); }
#endif
    vp_reach("inv");
  } else {                 // partial inverse / partial identity w.r.t. a symbolic sub-product Q
#if VP_FIELD
    unsigned a = (unsigned)vp_fork_int(vp_int("a", 1, (int)M - 1)); E x(a); auto r = x.get_partial_inverse(M);
    vp_assert(val(x * r.first) == 1 && r.second == M, "partial inverse in a field");
#else
    unsigned Q = 1; for (unsigned p : all_primes) if (p >= VP_LO && p <= VP_HI) { if (vp_fork_int(vp_int("inQ", 0, 1))) Q *= p; }
    vp_assume(Q > 1);
    unsigned a = (unsigned)vp_fork_int(vp_int("a", 0, (int)M - 1)); E x(a); auto r = x.get_partial_inverse(Q); unsigned inv = val(r.first), T = r.second;
    unsigned expT = 1; for (unsigned p : all_primes) if (p >= VP_LO && p <= VP_HI && Q % p == 0 && a % p != 0) expT *= p;
    vp_assert(T == expT, "T is the sub-product of Q where x is invertible");
    for (unsigned p : all_primes) if (p >= VP_LO && p <= VP_HI) { if (expT % p == 0) vp_assert((inv % p) * (a % p) % p == 1, "partial inverse modulo a prime of T"); else vp_assert(inv % p == 0, "partial inverse is 0 modulo the other primes"); }
    unsigned id = val(E::get_partial_multiplicative_identity(Q));
    for (unsigned p : all_primes) if (p >= VP_LO && p <= VP_HI) vp_assert(id % p == (Q % p == 0 ? 1 % p : 0), "partial multiplicative identity");
#endif
    vp_reach("pinv");
  }
  vp_reach("end");
}
