// C14 (2D): persistence_on_rectangle_from_top_cells == lower-star cubical persistence of the top-cell values.
// Oracle: two independent merge trees on the top-cell grid (H0: 8-connectivity ascending; H1: 4-connectivity + outside node, descending
// = Alexander duality of the T-construction). Zero-length pairs are dropped on both sides (the statement is about non-zero-length intervals).
#include "vp.h"
#include <gudhi/Persistence_on_rectangle.h>
#ifndef VP_R
#define VP_R 2
#endif
#ifndef VP_C
#define VP_C 2
#endif
#ifndef VP_VMAX
#define VP_VMAX 3
#endif
#ifndef VP_T
#define VP_T int
#endif
typedef VP_T T;
enum { R = VP_R, C = VP_C, NC = VP_R * VP_C };
static int uf_find(int* p, int x) { while (p[x] != x) x = p[x]; return x; }
static void sortpairs(T* b, T* d, int k) {
  for (int i = 0; i < k; i++) for (int j = 0; j + 1 < k - i; j++)
    if (b[j] > b[j + 1] || (b[j] == b[j + 1] && d[j] > d[j + 1])) { T t = b[j]; b[j] = b[j + 1]; b[j + 1] = t; t = d[j]; d[j] = d[j + 1]; d[j + 1] = t; }
}
extern "C" void harness() {
  T in[NC];
  for (int i = 0; i < NC; i++) in[i] = (T)vp_int("f", 0, VP_VMAX);
  T o0[4 * NC + 4], d0[4 * NC + 4], o1[4 * NC + 4], d1[4 * NC + 4]; int k0 = 0, k1 = 0; bool ovf = false, badidx = false;
#ifdef VP_INDEX
  auto put0 = [&](unsigned b, unsigned d) { if (b >= NC || d >= NC) { badidx = true; return; } if (in[b] == in[d]) return; if (k0 < 4 * NC) { o0[k0] = in[b]; d0[k0] = in[d]; ++k0; } else ovf = true; };
  auto put1 = [&](unsigned b, unsigned d) { if (b >= NC || d >= NC) { badidx = true; return; } if (in[b] == in[d]) return; if (k1 < 4 * NC) { o1[k1] = in[b]; d1[k1] = in[d]; ++k1; } else ovf = true; };
  unsigned mi = Gudhi::cubical_complex::persistence_on_rectangle_from_top_cells<true>(in, (unsigned)R, (unsigned)C, put0, put1);
  vp_assert(mi < NC, "returned index in range"); T m = mi < NC ? in[mi] : (T)-1;
#else
  auto put0 = [&](T b, T d) { if (b == d) return; if (k0 < 4 * NC) { o0[k0] = b; d0[k0] = d; ++k0; } else ovf = true; };
  auto put1 = [&](T b, T d) { if (b == d) return; if (k1 < 4 * NC) { o1[k1] = b; d1[k1] = d; ++k1; } else ovf = true; };
  T m = Gudhi::cubical_complex::persistence_on_rectangle_from_top_cells<false>(in, (unsigned)R, (unsigned)C, put0, put1);
#endif
  vp_assert(!ovf, "implausibly many intervals"); vp_assert(!badidx, "index out of range in index mode");
  T rb0[NC], rd0[NC], rb1[NC], rd1[NC]; int rk0 = 0, rk1 = 0;
  { int par[NC]; T mn[NC]; bool in_[NC]; for (int i = 0; i < NC; i++) { par[i] = i; in_[i] = false; mn[i] = in[i]; }
    for (int step = 0; step < NC; step++) { int best = -1; for (int i = 0; i < NC; i++) if (!in_[i] && (best < 0 || in[i] < in[best])) best = i;
      in_[best] = true; int r = best / C, c = best % C;
      for (int dr = -1; dr <= 1; dr++) for (int dc = -1; dc <= 1; dc++) { int rr = r + dr, cc = c + dc; if ((dr || dc) && rr >= 0 && rr < R && cc >= 0 && cc < C && in_[rr * C + cc]) {
        int a = uf_find(par, best), b = uf_find(par, rr * C + cc); if (a != b) { int young = mn[a] > mn[b] ? a : b, old = young == a ? b : a; if (mn[young] < in[best]) { rb0[rk0] = mn[young]; rd0[rk0] = in[best]; rk0++; } par[young] = old; } } } }
    T gm = in[0]; for (int i = 1; i < NC; i++) if (in[i] < gm) gm = in[i];
    vp_assert(m == gm, "returned global minimum"); }
  { int par[NC + 1]; T pk[NC + 1]; bool in_[NC + 1]; bool inf_[NC + 1]; for (int i = 0; i <= NC; i++) { par[i] = i; in_[i] = false; inf_[i] = false; pk[i] = i < NC ? in[i] : (T)0; } in_[NC] = true; inf_[NC] = true;
    for (int step = 0; step < NC; step++) { int best = -1; for (int i = 0; i < NC; i++) if (!in_[i] && (best < 0 || in[i] > in[best])) best = i;
      in_[best] = true; int r = best / C, c = best % C; int nb[5]; int nn = 0;
      if (r == 0 || r == R - 1 || c == 0 || c == C - 1) nb[nn++] = NC;
      if (r > 0 && in_[(r - 1) * C + c]) nb[nn++] = (r - 1) * C + c; if (r < R - 1 && in_[(r + 1) * C + c]) nb[nn++] = (r + 1) * C + c;
      if (c > 0 && in_[r * C + c - 1]) nb[nn++] = r * C + c - 1; if (c < C - 1 && in_[r * C + c + 1]) nb[nn++] = r * C + c + 1;
      for (int q = 0; q < nn; q++) { int a = uf_find(par, best), b = uf_find(par, nb[q]); if (a != b) {
        int young = inf_[a] ? b : inf_[b] ? a : (pk[a] < pk[b] ? a : b), old = young == a ? b : a;
        if (in[best] < pk[young]) { rb1[rk1] = in[best]; rd1[rk1] = pk[young]; rk1++; } par[young] = old; } } } }
  vp_assert(k0 == rk0, "number of H0 intervals"); vp_assert(k1 == rk1, "number of H1 intervals");
  sortpairs(o0, d0, k0); sortpairs(rb0, rd0, rk0); sortpairs(o1, d1, k1); sortpairs(rb1, rd1, rk1);
  for (int i = 0; i < rk0 && i < k0; i++) vp_assert(o0[i] == rb0[i] && d0[i] == rd0[i], "H0 multiset");
  for (int i = 0; i < rk1 && i < k1; i++) vp_assert(o1[i] == rb1[i] && d1[i] == rd1[i], "H1 multiset");
  vp_observe((uint64_t)k0 * 100 + k1);
  vp_reach("end");
}
