// C07: zigzag persistence. Symbolic: a sequence of VP_K arrows (insert a not-yet-present cell whose boundary is present / remove a present cell with no coface / identity)
// over the faces of the simplex on VP_NV vertices, with a symbolic injective key map (arrow numbers are the keys of Zigzag_persistence).
// Oracle (this file): per-step Betti numbers by dense GF(2) ranks fix, for every arrow, whether a class is born or dies, in which dimension and at which index;
// every finite interval must close a birth index that is open in that dimension, every open index must be reported as infinite, and an insertion-only
// sequence must reproduce the pairing of an independent boundary-matrix reduction (ordinary persistence).
#include "vp.h"
#include <limits>
#include <gudhi/zigzag_persistence.h>
#include <gudhi/filtered_zigzag_persistence.h>
#include <vector>
#ifndef VP_K
#define VP_K 5
#endif
#ifndef VP_NV
#define VP_NV 3
#endif
enum { NV = VP_NV, NS = 1 << VP_NV, K = VP_K };
static int pcnt(int m) { return __builtin_popcount(m); }
// Betti numbers over GF(2) of the complex present[] (bitmask elimination)
static void betti(const bool* p, int* b) {
  int idx[NS], ns = 0, list[NS]; for (int m = 1; m < NS; m++) if (p[m]) { idx[m] = ns; list[ns++] = m; }
  int rankd[NV + 2], cntd[NV + 2]; for (int d = 0; d <= NV + 1; d++) rankd[d] = cntd[d] = 0;
  for (int d = 1; d < NV; d++) { unsigned rows[NS]; int k = 0; for (int q = 0; q < ns; q++) if (pcnt(list[q]) == d + 1) { unsigned r = 0; int m = list[q]; for (int i = 0; i < NV; i++) if (m >> i & 1) r |= 1u << idx[m & ~(1 << i)]; rows[k++] = r; }
    int rk = 0; for (int bit = 0; bit < ns; bit++) { int pv = -1; for (int i = rk; i < k; i++) if (rows[i] >> bit & 1) { pv = i; break; } if (pv < 0) continue; unsigned t = rows[pv]; rows[pv] = rows[rk]; rows[rk] = t; for (int i = 0; i < k; i++) if (i != rk && (rows[i] >> bit & 1)) rows[i] ^= rows[rk]; rk++; } rankd[d] = rk; }
  for (int q = 0; q < ns; q++) cntd[pcnt(list[q]) - 1]++;
  for (int d = 0; d < NV; d++) b[d] = cntd[d] - rankd[d] - rankd[d + 1];
}

// ------------------------------------------------------------------------------------------------------------------------------------------
// Full oracle: interval decomposition of the zigzag module by the right-filtration algorithm of Carlsson & de Silva ("Zigzag persistence", 2010,
// Thm 4.1), on explicit homology bases over GF(2). Independent of GUDHI's chain-matrix/diamond implementation. Spaces are tiny (dim <= 6), so a
// subspace is a 64-bit membership mask over the 2^h vectors and every operation is brute force.
#ifdef VP_FULLORACLE
enum { HMAX = 6 };
typedef unsigned long long Sub;                     // subspace of GF(2)^h as a set of h-bit vectors
struct Ech { unsigned vec[2 * NS]; unsigned tag[2 * NS]; int n; };   // echelon rows (chain, coordinate tag) ordered by insertion, reduced on insertion
static unsigned bd_of(int m) { unsigned b = 0; if (pcnt(m) > 1) for (int v = 0; v < NV; v++) if (m >> v & 1) b ^= 1u << (m & ~(1 << v)); return b; }
static void ech_reduce(const Ech& E, unsigned& v, unsigned& t) { for (int i = 0; i < E.n; i++) { unsigned lead = 1u << (31 - __builtin_clz(E.vec[i])); if (v & lead) { v ^= E.vec[i]; t ^= E.tag[i]; } } }
static bool ech_add(Ech& E, unsigned v, unsigned t) { ech_reduce(E, v, t); if (!v) return false; // keep rows mutually reduced w.r.t. leading bits: order rows by decreasing lead
  int pos = E.n; for (int i = 0; i < E.n; i++) if (E.vec[i] < v) { pos = i; break; } for (int i = E.n; i > pos; i--) { E.vec[i] = E.vec[i - 1]; E.tag[i] = E.tag[i - 1]; } E.vec[pos] = v; E.tag[pos] = t; E.n++; return true; }
struct Hom { int h; unsigned rep[HMAX]; Ech E; };   // H_d(K): representatives and the echelon basis of B_d + representatives (tag bit j = representative j)
static void homology(const bool* p, int d, Hom& H) {
  H.h = 0; H.E.n = 0;
  for (int m = 1; m < NS; m++) if (p[m] && pcnt(m) == d + 2) ech_add(H.E, bd_of(m), 0);                 // boundaries B_d
  Ech Z; Z.n = 0; unsigned cyc[NS]; int nc = 0;                                                           // cycles Z_d: kernel of the boundary on d-chains
  for (int m = 1; m < NS; m++) if (p[m] && pcnt(m) == d + 1) { unsigned b = bd_of(m), c = 1u << m; ech_reduce(Z, b, c); if (b) ech_add(Z, b, c); else cyc[nc++] = c; }
  // NOTE: tags of Z rows carry the chain; ech_reduce above already combined them
  for (int i = 0; i < nc; i++) if (H.h < HMAX) { unsigned v = cyc[i], t = 1u << H.h; if (ech_add(H.E, v, t)) { H.rep[H.h] = cyc[i]; H.h++; } }
}
static unsigned coords(const Hom& H, unsigned cycle) { unsigned v = cycle, t = 0; ech_reduce(H.E, v, t); return t; }   // class of a cycle in the basis of H (v must reduce to 0)
static int sdim(Sub s) { return __builtin_ctzll((unsigned long long)__builtin_popcountll(s)); }
struct RF { int m; Sub S[K + 2]; int beta[K + 2]; };   // right filtration S_1 <= ... <= S_m = V with birth labels
struct Oracle { int nfin; int fb[4 * K], fd[4 * K], fdim[4 * K]; };
static void emit(Oracle& O, int dim, int b, int d, int mult) { for (int q = 0; q < mult; q++) if (O.nfin < 4 * K) { O.fdim[O.nfin] = dim; O.fb[O.nfin] = b; O.fd[O.nfin] = d; O.nfin++; } }
// one arrow: `from` (dimension hf) and `to` (ht); forward: lin maps from->to given by img[j] (image of basis vector j of `from`); backward: lin maps to->from
static void rf_step(RF& R, int hf, int ht, const unsigned* img, bool forward, int arrow, int dim, Oracle& O) {
  auto apply = [&](unsigned x, int n) { unsigned y = 0; for (int j = 0; j < n; j++) if (x >> j & 1) y ^= img[j]; return y; };
  RF N; N.m = 0;
  if (forward) { Sub ker = 0; for (unsigned x = 0; x < (1u << hf); x++) if (apply(x, hf) == 0) ker |= 1ULL << x;
    Sub prev = 1; for (int j = 0; j < R.m; j++) { int c = sdim(R.S[j] & ker) - sdim(prev & ker); emit(O, dim, R.beta[j], arrow, c); prev = R.S[j]; }
    for (int j = 0; j < R.m; j++) { Sub im = 0; for (unsigned x = 0; x < (1u << hf); x++) if (R.S[j] >> x & 1) im |= 1ULL << apply(x, hf); N.S[N.m] = im; N.beta[N.m] = R.beta[j]; N.m++; }
    N.S[N.m] = ht >= 6 ? ~0ULL : ((1ULL << (1u << ht)) - 1); N.beta[N.m] = arrow; N.m++; }
  else { Sub im = 0; for (unsigned y = 0; y < (1u << ht); y++) im |= 1ULL << apply(y, ht);
    Sub prev = 1; for (int j = 0; j < R.m; j++) { int c = (sdim(R.S[j]) - sdim(prev)) - (sdim(R.S[j] & im) - sdim(prev & im)); emit(O, dim, R.beta[j], arrow, c); prev = R.S[j]; }
    { Sub pre = 0; for (unsigned y = 0; y < (1u << ht); y++) if (apply(y, ht) == 0) pre |= 1ULL << y; N.S[N.m] = pre; N.beta[N.m] = arrow; N.m++; }
    for (int j = 0; j < R.m; j++) { Sub pre = 0; for (unsigned y = 0; y < (1u << ht); y++) if (R.S[j] >> apply(y, ht) & 1) pre |= 1ULL << y; N.S[N.m] = pre; N.beta[N.m] = R.beta[j]; N.m++; } }
  // drop repeated subspaces (they carry no interval) to keep the list short
  RF C; C.m = 0; Sub prev = 1; for (int j = 0; j < N.m; j++) if (N.S[j] != prev) { C.S[C.m] = N.S[j]; C.beta[C.m] = N.beta[j]; C.m++; prev = N.S[j]; }
  R = C;
}
#endif
struct Bar { int dim, b, d; };
#ifdef VP_PREFIX_K4T
#define DVFORK(step) ((step) < 5 ? 1 : vp_fork_int(vp_int("dv", 0, 1)))   /* distinct values for the first prefix cells, solver-chosen ties afterwards */
#else
#define DVFORK(step) vp_fork_int(vp_int("dv", 0, 1))
#endif
extern "C" void harness() {
  std::vector<Bar> fin;   // finite intervals as streamed
  Gudhi::zigzag_persistence::Zigzag_persistence<> zp([&](int dim, int b, int d) { fin.push_back(Bar{dim, b, d}); });
#ifdef VP_FILTERED
  std::vector<Bar> ffin; std::vector<double> fb, fd;
  Gudhi::zigzag_persistence::Filtered_zigzag_persistence<> fzp([&](int dim, double b, double d) { ffin.push_back(Bar{dim, 0, 0}); fb.push_back(b); fd.push_back(d); });
  int val = 0; int fval[K + 1];
  // second front-end: the storing variant, with a solver-chosen ignoreCyclesAboveDim (-1 = nothing ignored)
  int ign = vp_fork_int(vp_int("ignore", -1, 1)); Gudhi::zigzag_persistence::Filtered_zigzag_persistence_with_storage<> fzs(0, ign);
#endif
  bool present[NS]; int key[NS]; for (int m = 0; m < NS; m++) { present[m] = false; key[m] = -1; }
  bool openb[NV][K + 1]; for (int d = 0; d < NV; d++) for (int i = 0; i <= K; i++) openb[d][i] = false;
  int prevb[NV]; for (int d = 0; d < NV; d++) prevb[d] = 0; bool insert_only = true; size_t seenfin = 0;
  int order[K], norder = 0;   // cells in insertion order (for the insertion-only clause)
#ifdef VP_FULLORACLE
  static Hom Hprev[NV], Hcur[NV]; static RF R[NV]; static Oracle O; O.nfin = 0; bool prevp[NS]; for (int m = 0; m < NS; m++) prevp[m] = false; for (int d = 0; d < NV; d++) { R[d].m = 0; Hprev[d].h = 0; Hprev[d].E.n = 0; }
#endif
  for (int step = 0; step < K; step++) {
#ifdef VP_EDGES_ONLY
    // graph zigzag: the vertices enter first (concrete arrows), then every arrow inserts or removes an edge
    int kind = step < NV ? 0 : vp_fork_int(vp_int("arrow", 0, 1)); int cd = -1; int arrow = -1; int m_pre = step < NV ? (1 << step) : 0;
    if (step >= NV) { static int edges[NV * (NV - 1) / 2]; int ne = 0; for (int a = 0; a < NV; a++) for (int c = a + 1; c < NV; c++) edges[ne++] = 1 << a | 1 << c; m_pre = edges[vp_fork_int(vp_int("edge", 0, ne - 1))]; }
#elif defined(VP_PREFIX_K4T)
    // fixed start (concrete arrows): four vertices and the boundary of the triangle {0,1,2}; every later arrow is chosen by the solver
    static const int pre[7] = {1, 2, 4, 8, 3, 5, 6}; int kind = step < 7 ? 0 : vp_fork_int(vp_int("arrow", 0, 2)); int cd = -1; int arrow = -1; int m_pre = step < 7 ? pre[step] : 0;
#else
    int kind = vp_fork_int(vp_int("arrow", 0, 2)); int cd = -1; int arrow = -1; int m_pre = 0;
#endif
    if (kind == 0) { int m = m_pre ? m_pre : vp_fork_int(vp_int("mask", 1, NS - 1)); vp_assume(!present[m]); std::vector<int> bd; for (int s = 1; s < NS; s++) if ((s & m) == s && s != m) { vp_assume(present[s]); if (pcnt(s) == pcnt(m) - 1) bd.push_back(key[s]); }
      for (size_t a = 0; a < bd.size(); a++) for (size_t c = a + 1; c < bd.size(); c++) if (bd[c] < bd[a]) { int t = bd[a]; bd[a] = bd[c]; bd[c] = t; }
      arrow = key[m] = (int)zp.insert_cell(bd, pcnt(m) - 1); present[m] = true; cd = pcnt(m) - 1; order[norder++] = m;
#ifdef VP_FILTERED
      val += DVFORK(step); fzp.insert_cell(m, [&]{ std::vector<int> ids; for (int s = 1; s < NS; s++) if ((s & m) == s && pcnt(s) == pcnt(m) - 1) ids.push_back(s); return ids; }(), pcnt(m) - 1, (double)val);
      { int a2 = (int)fzs.insert_cell(m, [&]{ std::vector<int> ids; for (int s = 1; s < NS; s++) if ((s & m) == s && pcnt(s) == pcnt(m) - 1) ids.push_back(s); return ids; }(), pcnt(m) - 1, (double)val); vp_assert(a2 == step, "storing front-end: operations are numbered consecutively (skipped cells count as identities)"); }
#endif
      vp_reach("insert"); }
    else if (kind == 1) { int m = m_pre ? m_pre : vp_fork_int(vp_int("mask", 1, NS - 1)); vp_assume(present[m]); for (int s = 1; s < NS; s++) if (s != m && (s & m) == m) vp_assume(!present[s]);
      arrow = (int)zp.remove_cell(key[m]); present[m] = false; cd = pcnt(m) - 1; insert_only = false;
#ifdef VP_FILTERED
      val += DVFORK(step); fzp.remove_cell(m, (double)val);
      { int a2 = (int)fzs.remove_cell(m, (double)val); vp_assert(a2 == step, "storing front-end: operations are numbered consecutively (skipped cells count as identities)"); }
#endif
      vp_reach("remove"); }
    else { arrow = (int)zp.apply_identity(); insert_only = false;
#ifdef VP_FILTERED
      fzp.apply_identity(); fzs.apply_identity();
#endif
      vp_reach("identity"); }
    vp_assert(arrow == step, "operations are numbered consecutively from 0");
#ifdef VP_FILTERED
    fval[step] = val;
#endif
    int b[NV]; betti(present, b);
    // what the arrow must do to homology, from the Betti numbers alone
    int born = -1, died = -1; for (int d = 0; d < NV; d++) { if (b[d] == prevb[d] + 1) born = d; else if (b[d] == prevb[d] - 1) died = d; else vp_assert(b[d] == prevb[d], "oracle sanity: a single cell changes one Betti number by one"); }
    if (kind == 2) vp_assert(born < 0 && died < 0, "oracle sanity: identity");
    vp_assert(fin.size() == seenfin + (died >= 0 ? 1 : 0), "exactly the arrows that kill a class stream one finite interval");
    if (died >= 0 && fin.size() == seenfin + 1) { Bar x = fin.back(); vp_assert(x.dim == died, "finite interval has the dimension of the class that died"); vp_assert(x.d == step, "death index = number of the arrow that killed the class");
      vp_assert(x.b >= 0 && x.b < step && x.dim >= 0 && x.dim < NV && openb[x.dim < 0 || x.dim >= NV ? 0 : x.dim][x.b < 0 || x.b > K ? 0 : x.b], "birth index is an index at which a class of that dimension was born and is still open"); if (x.dim >= 0 && x.dim < NV && x.b >= 0 && x.b <= K) openb[x.dim][x.b] = false; }
    seenfin = fin.size();
    if (born >= 0) openb[born][step] = true;
    // currently open intervals = exactly the open birth indices (so their number per dimension is the Betti number)
    { bool rep[NV][K + 1]; for (int d = 0; d < NV; d++) for (int i = 0; i <= K; i++) rep[d][i] = false;
      zp.get_current_infinite_intervals([&](int dim, int birth) { vp_assert(dim >= 0 && dim < NV && birth >= 0 && birth <= step && !rep[dim < 0 || dim >= NV ? 0 : dim][birth < 0 || birth > K ? 0 : birth], "open interval listed once with a valid birth index"); if (dim >= 0 && dim < NV && birth >= 0 && birth <= K) rep[dim][birth] = true; });
      for (int d = 0; d < NV; d++) for (int i = 0; i <= K; i++) vp_assert(rep[d][i] == openb[d][i], "the open intervals are exactly the births not yet closed, with the right dimension"); }
    for (int d = 0; d < NV; d++) prevb[d] = b[d];
#ifdef VP_FULLORACLE
    for (int d = 0; d < NV - 1; d++) { homology(present, d, Hcur[d]); unsigned img[HMAX];
      if (kind == 0) { for (int j = 0; j < Hprev[d].h; j++) img[j] = coords(Hcur[d], Hprev[d].rep[j]); rf_step(R[d], Hprev[d].h, Hcur[d].h, img, true, step, d, O); }       // K_{i-1} subset K_i: forward map
      else if (kind == 1) { for (int j = 0; j < Hcur[d].h; j++) img[j] = coords(Hprev[d], Hcur[d].rep[j]); rf_step(R[d], Hprev[d].h, Hcur[d].h, img, false, step, d, O); }  // K_i subset K_{i-1}: backward map
      else { for (int j = 0; j < Hprev[d].h; j++) img[j] = 1u << j; rf_step(R[d], Hprev[d].h, Hcur[d].h, img, true, step, d, O); }
      Hprev[d] = Hcur[d]; }
#endif
  }
#ifdef VP_FULLORACLE
  { // the streamed finite intervals and the open ones are exactly the interval decomposition computed by the oracle
    vp_assert((int)fin.size() == O.nfin, "number of finite intervals = interval decomposition of the zigzag module"); std::vector<bool> used(fin.size(), false);
    for (int q = 0; q < O.nfin; q++) { bool found = false; for (size_t i = 0; i < fin.size(); i++) if (!used[i] && fin[i].dim == O.fdim[q] && fin[i].b == O.fb[q] && fin[i].d == O.fd[q]) { used[i] = true; found = true; break; } vp_assert(found, "finite intervals = interval decomposition of the zigzag module (births paired with the right deaths)"); }
    int expopen[NV][K + 1]; for (int d = 0; d < NV; d++) for (int i = 0; i <= K; i++) expopen[d][i] = 0;
    for (int d = 0; d < NV - 1; d++) { Sub prev = 1; for (int j = 0; j < R[d].m; j++) { expopen[d][R[d].beta[j]] += sdim(R[d].S[j]) - sdim(prev); prev = R[d].S[j]; } }
    for (int d = 0; d < NV - 1; d++) for (int i = 0; i < K; i++) vp_assert((openb[d][i] ? 1 : 0) == expopen[d][i], "open intervals = interval decomposition of the zigzag module");
    vp_reach("full-oracle"); }
#endif
  if (insert_only) { // ordinary persistence: pairing of an independent reduction of the boundary matrix in insertion order
    int n = norder; int pos[NS]; for (int i = 0; i < n; i++) pos[order[i]] = i; unsigned col[K]; int low[K];
    for (int j = 0; j < n; j++) { col[j] = 0; int m = order[j]; if (pcnt(m) > 1) for (int i = 0; i < NV; i++) if (m >> i & 1) col[j] |= 1u << pos[m & ~(1 << i)];
      while (col[j]) { int l = 31 - __builtin_clz(col[j]); int k = -1; for (int q = 0; q < j; q++) if (col[q] && low[q] == l) k = q; if (k < 0) { low[j] = l; break; } col[j] ^= col[k]; } if (!col[j]) low[j] = -1; }
    for (auto& x : fin) vp_assert(x.d >= 0 && x.d < n && low[x.d] == x.b, "an insertion-only sequence reproduces ordinary persistence (same pairs)");
    int npairs = 0; for (int j = 0; j < n; j++) if (low[j] >= 0) npairs++; vp_assert((int)fin.size() == npairs, "number of finite pairs of ordinary persistence"); vp_reach("insert-only"); }
#ifdef VP_FILTERED
  { // the filtered front-end reports the same intervals translated to filtration values, omitting only zero-length ones
    int expn = 0; for (auto& x : fin) if (fval[x.b] != fval[x.d]) expn++; vp_assert((int)ffin.size() == expn, "filtered front-end: same finite intervals minus the zero-length ones");
    std::vector<bool> used(ffin.size(), false);
    for (auto& x : fin) if (fval[x.b] != fval[x.d]) { bool found = false; for (size_t i = 0; i < ffin.size(); i++) if (!used[i] && ffin[i].dim == x.dim && fb[i] == (double)fval[x.b] && fd[i] == (double)fval[x.d]) { used[i] = true; found = true; break; } vp_assert(found, "filtered front-end: interval translated to the supplied filtration values"); } }
  { // the storing front-end: index diagram = the finite intervals of the dimensions below ignoreCyclesAboveDim; value diagram = their translation (zero-length omitted) + the open ones
    auto keep = [&](int dim) { return ign == -1 || dim < ign; };
    const auto& idx = fzs.get_index_persistence_diagram(); int expi = 0; for (auto& x : fin) if (keep(x.dim)) expi++;
    vp_assert((int)idx.size() == expi, "storing front-end: index diagram = finite intervals of the non-ignored dimensions"); { std::vector<bool> used(idx.size(), false);
      for (auto& x : fin) if (keep(x.dim)) { bool found = false; for (size_t i = 0; i < idx.size(); i++) if (!used[i] && (int)idx[i].dim == x.dim && (int)idx[i].birth == x.b && (int)idx[i].death == x.d) { used[i] = true; found = true; break; } vp_assert(found, "storing front-end: index interval"); } }
    auto diag = fzs.get_persistence_diagram(0., true); int expv = 0; for (auto& x : fin) if (keep(x.dim) && fval[x.b] != fval[x.d]) expv++; for (int d = 0; d < NV; d++) for (int i = 0; i < K; i++) if (openb[d][i] && keep(d)) expv++;
    vp_assert((int)diag.size() == expv, "storing front-end: diagram = translated finite intervals minus zero-length ones, plus the open intervals, of the non-ignored dimensions"); std::vector<bool> used(diag.size(), false);
    for (auto& x : fin) if (keep(x.dim) && fval[x.b] != fval[x.d]) { bool found = false; for (size_t i = 0; i < diag.size(); i++) if (!used[i] && (int)diag[i].dim == x.dim && diag[i].birth == (double)fval[x.b] && diag[i].death == (double)fval[x.d]) { used[i] = true; found = true; break; } vp_assert(found, "storing front-end: interval translated to the supplied filtration values"); }
    for (int d = 0; d < NV; d++) for (int i = 0; i < K; i++) if (openb[d][i] && keep(d)) { bool found = false; for (size_t j = 0; j < diag.size(); j++) if (!used[j] && (int)diag[j].dim == d && diag[j].birth == (double)fval[i] && diag[j].death == std::numeric_limits<double>::infinity()) { used[j] = true; found = true; break; } vp_assert(found, "storing front-end: open interval translated to the filtration value of its birth"); } }
#endif
  vp_reach("end");
}
