// C12: flag-complex edge collapse preserves the persistent homology of the flag filtration.
// Symbolic: presence and weight (with ties) of every possible edge on VP_N vertices. Oracle: dense Z_2 persistence of both flag filtrations.
#include "vp.h"
#include <gudhi/Flag_complex_edge_collapser.h>
#include <vector>
#include <tuple>
#ifndef VP_N
#define VP_N 4
#endif
#ifndef VP_WMAX
#define VP_WMAX 3
#endif
#ifndef VP_WT
#define VP_WT int
#endif
typedef VP_WT W;
enum { N = VP_N, NS = 1 << VP_N, VMAXV = 8 };
#if VP_LABELS == 1
static const int label[6] = {5, 2, 9, 0, 7, 3};
#else
static const int label[6] = {0, 1, 2, 3, 4, 5};
#endif
static int pcnt(int m) { return __builtin_popcount(m); }
struct Diagram { int cnt[N][VMAXV][VMAXV + 1]; };   // cnt[dim][birth][death], death index VMAXV = infinite
static void flag_persistence(const int w[N][N], Diagram& D) {
  for (int d = 0; d < N; d++) for (int b = 0; b < VMAXV; b++) for (int e = 0; e <= VMAXV; e++) D.cnt[d][b][e] = 0;
  int val[NS]; bool in[NS];
  for (int m = 1; m < NS; m++) { in[m] = true; val[m] = 0; for (int i = 0; i < N; i++) for (int j = i + 1; j < N; j++) if ((m >> i & 1) && (m >> j & 1)) { if (w[i][j] < 0) in[m] = false; else if (w[i][j] > val[m]) val[m] = w[i][j]; } }
  int ord[NS], n = 0; for (int m = 1; m < NS; m++) if (in[m]) ord[n++] = m;
  { int cntv[VMAXV + 1][N + 1]; for (int v = 0; v <= VMAXV; v++) for (int c = 0; c <= N; c++) cntv[v][c] = 0; for (int i = 0; i < n; i++) cntv[val[ord[i]]][pcnt(ord[i])]++;   /* counting sort by (value, dimension, mask) */
    int start[VMAXV + 1][N + 1], acc = 0; for (int v = 0; v <= VMAXV; v++) for (int c = 0; c <= N; c++) { start[v][c] = acc; acc += cntv[v][c]; } int tmp[NS]; for (int i = 0; i < n; i++) { int m = ord[i]; tmp[start[val[m]][pcnt(m)]++] = m; } for (int i = 0; i < n; i++) ord[i] = tmp[i]; }
  int pos[NS]; for (int i = 0; i < n; i++) pos[ord[i]] = i;
  static unsigned long long col[NS]; int low[NS], owner[NS]; bool paired[NS]; for (int j = 0; j < n; j++) { paired[j] = false; owner[j] = -1; }
  for (int j = 0; j < n; j++) { col[j] = 0; int m = ord[j]; if (pcnt(m) > 1) for (int v = 0; v < N; v++) if (m >> v & 1) col[j] |= 1ull << pos[m & ~(1 << v)];
    low[j] = -1; while (col[j]) { int l = 63 - __builtin_clzll(col[j]); int k = owner[l]; if (k < 0) { low[j] = l; owner[l] = j; break; } col[j] ^= col[k]; }
    if (low[j] >= 0) { paired[low[j]] = true; paired[j] = true; int b = val[ord[low[j]]], e = val[ord[j]]; if (b < e) D.cnt[pcnt(ord[low[j]]) - 1][b][e]++; } }
  for (int j = 0; j < n; j++) if (!paired[j]) D.cnt[pcnt(ord[j]) - 1][val[ord[j]]][VMAXV]++;
}
extern "C" void harness() {
  int w[N][N]; std::vector<std::tuple<int, int, W> > e;
#if defined(VP_GRAPH) && VP_GRAPH == 3
  bool miss[N][N]; for (int i = 0; i < N; i++) for (int j = 0; j < N; j++) miss[i][j] = false;
  { int prev = -1; for (int q = 0; q < VP_MISSING; q++) { int ei = vp_fork_int(vp_int("missing", 0, N * (N - 1) / 2 - 1)); vp_assume(ei > prev); prev = ei; int c = 0; for (int i = 0; i < N; i++) for (int j = i + 1; j < N; j++) { if (c == ei) miss[i][j] = miss[j][i] = true; c++; } } }
#endif
  for (int i = 0; i < N; i++) for (int j = i + 1; j < N; j++) {
#ifdef VP_GRIDW
    // weights as finite-grid doubles (guarded constants): the collapser only compares and copies them
#ifdef VP_GRAPH   /* 1 = octahedron (K6 minus a perfect matching), 2 = complete graph: only the weights vary; 3 = complete graph minus VP_MISSING solver-chosen edges */
#if VP_GRAPH == 3
    int present = !miss[i][j];
#else
    int present = (VP_GRAPH == 1) ? !((i ^ j) == 1 && (i >> 1) == (j >> 1)) : 1;
#endif
#else
    int present = vp_fork_int(vp_int("has", 0, 1));
#endif
#ifdef VP_FORKW   /* one path per concrete weight assignment (enumerated by the solver): for the 6-vertex units */
    W xw = (W)vp_double_grid_forked("w", 1.0, 1.0, VP_WMAX);
#ifdef VP_FIXTRI    /* slice of the weight space: the three edges of the triangle {0,1,2} have the weight VP_FIXTRI */
    if (j <= 2) vp_assume(xw == (W)VP_FIXTRI);
#endif
#else
    W xw = (W)vp_double_grid("w", 1.0, 1.0, VP_WMAX);
#endif
    int x = 0; if (present) { for (int q = 1; q <= VP_WMAX; q++) if (xw == (W)q) x = q; }
    w[i][j] = w[j][i] = present ? x : -1; if (present) e.emplace_back(label[i], label[j], xw);
#else
    int x = vp_int("w", 0, VP_WMAX); w[i][j] = w[j][i] = x == 0 ? -1 : x; if (x) e.emplace_back(label[i], label[j], (W)x);
#endif
  }
  auto r = Gudhi::collapse::flag_complex_collapse_edges(e);
  int w2[N][N]; for (int i = 0; i < N; i++) for (int j = 0; j < N; j++) w2[i][j] = -1; int nout = 0;
  for (auto& t : r) { int li = std::get<0>(t), lj = std::get<1>(t); int i = -1, j = -1; for (int q = 0; q < N; q++) { if (label[q] == li) i = q; if (label[q] == lj) j = q; } W xw = std::get<2>(t); int x = (int)xw;
    vp_assert(i >= 0 && j >= 0 && i != j, "output edge joins two input vertices"); if (i < 0 || j < 0 || i == j) continue;
    vp_assert(w[i][j] >= 0, "every output edge is an input edge"); vp_assert((W)x == xw && x >= w[i][j], "its value is not smaller than the input value"); vp_assert(x <= VP_WMAX, "its value is a value of the input"); vp_assert(w2[i][j] < 0, "an edge is output once");
    if (x > VMAXV - 1) x = VMAXV - 1; w2[i][j] = w2[j][i] = x; nout++; }
  Diagram A, B; flag_persistence(w, A); flag_persistence(w2, B);
  for (int d = 0; d < N; d++) for (int b = 0; b < VMAXV; b++) for (int f = 0; f <= VMAXV; f++) vp_assert(A.cnt[d][b][f] == B.cnt[d][b][f], "the flag filtration of the output has the same persistence diagram in every dimension");
  vp_observe((uint64_t)nout);
  vp_reach("end");
}
