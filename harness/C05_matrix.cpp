// C05: every persistence-matrix flavour computes the barcode of an independent reduction and satisfies its defining identities,
// also after the last cells are removed and inserted again.
#include "pm_common.h"
#ifndef VP_RM
#define VP_RM 0
#endif
static void check_identities(Mat& mat, int n) {
  int D[M][M], Ro[M][M], Uo[M][M], low[M], pairOf[M]; dense_boundary(D, n); reduce(D, n, low, pairOf, Ro, Uo);
  int C[M][M];   // what the matrix exposes as column j (R for boundary/RU, the chain for the chain flavour)
  for (int j = 0; j < n; j++) { auto cont = mat.get_column(j).get_content(n); for (int r = 0; r < n; r++) C[r][j] = (int)cont[r]; }
  bool pivUsed[M]; for (int i = 0; i < M; i++) pivUsed[i] = false;
  for (int j = 0; j < n; j++) { int l = -1; for (int r = n - 1; r >= 0; r--) if (C[r][j]) { l = r; break; }
#if VP_FLAVOUR == 2
    vp_assert(l >= 0, "chain columns are never empty");
#endif
    if (l >= 0) { vp_assert(!pivUsed[l], "non-zero columns have distinct lowest entries"); pivUsed[l] = true; }
#if VP_FLAVOUR != 0 || 1
    { auto p = mat.get_pivot(j); if (l >= 0) vp_assert((int)p == l, "get_pivot is the lowest non-zero row"); else vp_assert(p == Mat::template get_null_value<typename Mat::ID_index>(), "get_pivot of a zero column is the null index"); }
#endif
    vp_assert(mat.is_zero_column(j) == (l < 0), "is_zero_column"); vp_assert(mat.get_column_dimension(j) == pc(cell[j]) - 1, "get_column_dimension");
#if VP_FLAVOUR == 1 || VP_FLAVOUR == 2
    if (l >= 0) vp_assert((int)mat.get_column_with_pivot(l) == j, "get_column_with_pivot maps the pivot back to its column");
#endif
  }
#if VP_FLAVOUR == 0 || VP_FLAVOUR == 1
  // R is a reduction of D: same pivots as the oracle (the reduced matrix is not unique, its pivot pairing is)
  for (int j = 0; j < n; j++) { int l = -1; for (int r = n - 1; r >= 0; r--) if (C[r][j]) { l = r; break; } vp_assert(l == low[j], "pivot of R equals the pivot of an independent reduction"); }
#endif
#if VP_FLAVOUR == 1 && VP_IDX != 2   /* U is not exposed with identifier indexation */
  { int Um[M][M]; for (int j = 0; j < n; j++) { auto cont = mat.get_column(j, false).get_content(n); for (int r = 0; r < n; r++) Um[r][j] = (int)cont[r]; }
    bool tri = true; for (int j = 0; j < n; j++) { if (Um[j][j] == 0) tri = false; for (int r = j + 1; r < n; r++) if (Um[r][j]) tri = false; }
    vp_assert(tri, "U is upper triangular with a non-zero diagonal");
    bool rdu = true, dru = true;   // R = D*U   or   D = R*U  (the exposed factor may be stored as the inverse)
    for (int j = 0; j < n; j++) for (int r = 0; r < n; r++) { int a = 0, b = 0; for (int k = 0; k < n; k++) { a = (a + D[r][k] * Um[k][j]) % MOD; b = (b + C[r][k] * Um[k][j]) % MOD; } if (a != C[r][j]) rdu = false; if (b != D[r][j]) dru = false; }
    vp_assert(rdu || dru, "R and U factor the boundary matrix"); }
#endif
#if VP_FLAVOUR == 2
  // chain basis: unpaired chains are cycles, the boundary of a paired (death) chain is a non-zero multiple of its partner
  for (int j = 0; j < n; j++) { int bd[M]; for (int r = 0; r < n; r++) { bd[r] = 0; for (int k = 0; k < n; k++) bd[r] = (bd[r] + D[r][k] * C[k][j]) % MOD; }
    // which chain has leading cell j: the column with pivot j
    int lead = -1; for (int r = n - 1; r >= 0; r--) if (C[r][j]) { lead = r; break; }
    if (lead < 0) continue;
    if (pairOf[lead] == -1 || pairOf[lead] > lead) { bool z = true; for (int r = 0; r < n; r++) if (bd[r]) z = false; vp_assert(z, "chain of an unpaired or birth cell is a cycle"); }
    else { int b = pairOf[lead]; int cb = -1; for (int q = 0; q < n; q++) { int lq = -1; for (int r = n - 1; r >= 0; r--) if (C[r][q]) { lq = r; break; } if (lq == b) cb = q; }
      vp_assert(cb >= 0, "partner chain exists"); if (cb < 0) continue; int lam = 0; for (int r = 0; r < n; r++) if (C[r][cb]) { lam = bd[r] * inv_mod(C[r][cb]) % MOD; break; }
      bool ok = lam != 0; for (int r = 0; r < n; r++) if (bd[r] != lam * C[r][cb] % MOD) ok = false; vp_assert(ok, "the boundary sends a paired chain onto its partner"); } }
#endif
}
extern "C" void harness() {
  choose_filtration();
#if VP_Z2
  Mat mat(M);
#else
  Mat mat(M, VP_P);
#endif
  for (int j = 0; j < M; j++) insert_cell(mat, j);
  ncell = M;
#if !(VP_FLAVOUR == 0 && VP_RM)   /* a plain boundary matrix is reduced when the barcode is requested: documented to be asked once the matrix is complete */
  check_barcode(mat, M, "pair matches the independent reduction", "number of bars");
  check_identities(mat, M);
#endif
#if VP_RM
  { int k = vp_fork_int(vp_int("remove", 0, VP_RM)); for (int i = 0; i < k; i++) { mat.remove_last(); ncell--; }
    vp_assert((int)mat.get_number_of_columns() == ncell, "number of columns after remove_last");
#if VP_FLAVOUR != 0
    check_barcode(mat, ncell, "pair matches the independent reduction after remove_last", "number of bars after remove_last"); check_identities(mat, ncell);
#endif
    // insert (possibly different) cells again: re-choose the removed suffix symbolically among the admissible cells
    for (int j = ncell; j < M; j++) { bool used[NSUB]; for (int s = 0; s < NSUB; s++) used[s] = false; for (int q = 0; q < j; q++) used[cell[q]] = true;
      int m = vp_int("recell", 1, NSUB - 1); vp_assume(!used[m]); for (int s = 1; s < NSUB; s++) if ((s & m) == s && s != m) vp_assume(used[s]); cell[j] = m; insert_cell(mat, j); }
    ncell = M; check_barcode(mat, M, "pair matches the independent reduction after re-insertion", "number of bars after re-insertion"); check_identities(mat, M); if (k > 0) vp_reach("removed"); }
#endif
  vp_reach("end");
}
