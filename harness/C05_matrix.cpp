// C05: every persistence-matrix flavour computes the barcode of an independent reduction and satisfies its defining identities,
// also after the last cells are removed and inserted again.
#define VP_NEED_IDENT
#include "pm_common.h"
#ifdef VP_IDS
#define check_identities(m, n) ((void)0)   /* rows are identifiers: the identity clauses are checked by the units where identifiers = positions */
#endif
#ifndef VP_RM
#define VP_RM 0
#endif
extern "C" void harness() {
  choose_filtration(); for (int i = 0; i < M; i++) idAtPos[i] = i;
#if VP_Z2 && defined(VP_NORESERVE)
  Mat mat;   // no capacity announced: every container grows with the insertions
#elif VP_Z2
  Mat mat(M);
#else
  Mat mat(M, VP_P);
#endif
  for (int j = 0; j < M; j++) insert_cell(mat, j);
  ncell = M;
#if !(VP_FLAVOUR == 0 && VP_RM)   /* a plain boundary matrix is reduced when the barcode is requested: documented to be asked once the matrix is complete */
  check_barcode(mat, M, "pair matches the independent reduction", "number of bars");
  check_identities(mat, M);
#endif
#if VP_RM
  { int k = vp_fork_int(vp_int("remove", 0, VP_RM)); for (int i = 0; i < k; i++) { mat.remove_last(); ncell--; }
    vp_assert((int)mat.get_number_of_columns() == ncell, "number of columns after remove_last");
#if VP_FLAVOUR != 0
    check_barcode(mat, ncell, "pair matches the independent reduction after remove_last", "number of bars after remove_last"); check_identities(mat, ncell);
#endif
    // insert (possibly different) cells again: re-choose the removed suffix symbolically among the admissible cells
    for (int j = ncell; j < M; j++) { bool used[NSUB]; for (int s = 0; s < NSUB; s++) used[s] = false; for (int q = 0; q < j; q++) used[cell[q]] = true;
      int m = vp_int("recell", 1, NSUB - 1); vp_assume(!used[m]); for (int s = 1; s < NSUB; s++) if ((s & m) == s && s != m) vp_assume(used[s]); cell[j] = m; insert_cell(mat, j); }
    ncell = M; check_barcode(mat, M, "pair matches the independent reduction after re-insertion", "number of bars after re-insertion"); check_identities(mat, M); if (k > 0) vp_reach("removed"); }
#endif
  vp_reach("end");
}
