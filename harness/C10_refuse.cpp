// C10: a characteristic that is not a prime greater than 1 is refused (std::invalid_argument); primes are accepted.
#include "vp.h"
#include <cassert>
#include <stdexcept>
#include <vector>
#include <utility>
#include <gudhi/Fields/Zp_field_operators.h>
#include <gudhi/Fields/Zp_field_shared.h>
#include <gudhi/Fields/Multi_field_small_operators.h>
#include <gudhi/Fields/Multi_field_small_shared.h>
#include <gudhi/Persistent_cohomology/Field_Zp.h>
using namespace Gudhi::persistence_fields;
#ifndef VP_PMAX
#define VP_PMAX 40
#endif
static bool is_prime(int p) { if (p < 2) return false; for (int d = 2; d * d <= p; d++) if (p % d == 0) return false; return true; }
extern "C" void harness() {
  int which = vp_fork_int(vp_int("class", 0, 4)); int p = vp_fork_int(vp_int("p", 0, VP_PMAX));   // p concrete per path: the table-construction loops are p-dependent
  bool ok = true;
  try {
    if (which == 0) { Zp_field_operators<> op; op.set_characteristic((unsigned)p); vp_assert(op.get_characteristic() == (unsigned)p, "characteristic stored"); }
    else if (which == 1) { Shared_Zp_field_element<>::initialize((unsigned)p); }
    else if (which == 2) { Gudhi::persistent_cohomology::Field_Zp F; F.init(p); }
    else if (which == 3) { Multi_field_operators_with_small_characteristics op; op.set_characteristic(p, p); }
    else { Shared_multi_field_element_with_small_characteristics<>::initialize((unsigned)p, (unsigned)p); }
  } catch (const std::invalid_argument&) { ok = false; }
  vp_assert(ok == is_prime(p), "accepted exactly when the characteristic is a prime > 1");
  if (which == 2) { bool big = true; try { Gudhi::persistent_cohomology::Field_Zp F; F.init(46338 + p); } catch (const std::invalid_argument&) { big = false; } vp_assert(!big, "cohomology Field_Zp refuses characteristics above 46337"); }
  vp_reach("end");
}
