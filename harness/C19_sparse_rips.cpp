// C19: the sparse Rips filtration stays within its approximation guarantee.
// Symbolic: a finite metric on VP_N points with distances on the grid {1,1.5,..,3} (triangle inequality assumed, distinct points), epsilon in {1/4,1/2,3/4}
// (+ {1,2} and value bounds for the validity-only clause); all forked to concrete dyadic values by the solver.
// Clauses: (a) sub-complex of the Rips complex, never earlier; (b) closed under faces and monotone; (c) multiplicative (log-) bottleneck distance between the
// diagrams of the two filtrations <= 1/(1-epsilon) in every dimension (dense Z_2 oracle + brute-force matching).
#include "vp.h"
#include <gudhi/Simplex_tree.h>
#include <gudhi/Sparse_rips_complex.h>
#include <vector>
#include <cmath>
#include <limits>
#ifndef VP_N
#define VP_N 3
#endif
#ifndef VP_GRIDN
#define VP_GRIDN 5
#endif
typedef Gudhi::Simplex_tree<> ST;
enum { N = VP_N, NS = 1 << VP_N, MAXB = 8 };
static int pcnt(int m) { return __builtin_popcount(m); }
struct Pt { double b, d; };   // d = inf for essential classes
// persistence (Z_2) of the filtered complex in[] / val[] ; zero-length pairs dropped
static void persistence(const bool* in, const double* val, std::vector<Pt>* out) {
  int ord[NS], n = 0; for (int m = 1; m < NS; m++) if (in[m]) ord[n++] = m;
  for (int a = 0; a < n; a++) for (int b = 0; b + 1 < n - a; b++) { int x = ord[b], y = ord[b + 1]; bool gt = val[x] > val[y] || (val[x] == val[y] && (pcnt(x) > pcnt(y) || (pcnt(x) == pcnt(y) && x > y))); if (gt) { ord[b] = y; ord[b + 1] = x; } }
  int pos[NS]; for (int i = 0; i < n; i++) pos[ord[i]] = i; unsigned col[NS]; int low[NS]; bool paired[NS]; for (int j = 0; j < n; j++) paired[j] = false;
  for (int j = 0; j < n; j++) { col[j] = 0; int m = ord[j]; if (pcnt(m) > 1) for (int v = 0; v < N; v++) if (m >> v & 1) { int f = m & ~(1 << v); if (in[f]) col[j] |= 1u << pos[f]; }
    low[j] = -1; while (col[j]) { int l = 31 - __builtin_clz(col[j]); int k = -1; for (int q = 0; q < j; q++) if (col[q] && low[q] == l) k = q; if (k < 0) { low[j] = l; break; } col[j] ^= col[k]; }
    if (low[j] >= 0) { paired[low[j]] = true; paired[j] = true; double b = val[ord[low[j]]], e = val[ord[j]]; if (b < e) out[pcnt(ord[low[j]]) - 1].push_back(Pt{b, e}); } }
  for (int j = 0; j < n; j++) if (!paired[j]) out[pcnt(ord[j]) - 1].push_back(Pt{val[ord[j]], std::numeric_limits<double>::infinity()});
}
static const double TOL = 1e-9;
static bool within(double x, double y, double c) { // multiplicative distance between two coordinates <= c
  if (std::isinf(x) || std::isinf(y)) return std::isinf(x) && std::isinf(y); if (x == 0 || y == 0) return x == 0 && y == 0; return x <= c * y * (1 + TOL) && y <= c * x * (1 + TOL); }
static bool to_diagonal(const Pt& p, double c) { if (std::isinf(p.d) || p.b == 0) return false; return p.d <= c * c * p.b * (1 + TOL); }   // log-cost (log d - log b)/2 <= log c
static bool match(const std::vector<Pt>& A, const std::vector<Pt>& B, double c, size_t i, std::vector<bool>& used) {
  if (i == A.size()) { for (size_t j = 0; j < B.size(); j++) if (!used[j] && !to_diagonal(B[j], c)) return false; return true; }
  for (size_t j = 0; j < B.size(); j++) if (!used[j] && within(A[i].b, B[j].b, c) && within(A[i].d, B[j].d, c)) { used[j] = true; if (match(A, B, c, i + 1, used)) { used[j] = false; return true; } used[j] = false; }
  if (to_diagonal(A[i], c)) return match(A, B, c, i + 1, used);
  return false;
}
extern "C" void harness() {
  std::vector<std::vector<double> > dm(N); double D[N][N];
#ifdef VP_LINE   /* integer points 0..VP_LINE on a line (distinct, any order): exact ties between insertion radii, edge values and their dyadic multiples */
  { int pos[N]; for (int i = 0; i < N; i++) { pos[i] = vp_fork_int(vp_int("pos", 0, VP_LINE)); for (int j = 0; j < i; j++) vp_assume(pos[j] != pos[i]); }
    for (int i = 0; i < N; i++) { D[i][i] = 0; for (int j = 0; j < i; j++) { double d = pos[i] > pos[j] ? pos[i] - pos[j] : pos[j] - pos[i]; dm[i].push_back(d); D[i][j] = D[j][i] = d; } } }
#else
  for (int i = 0; i < N; i++) { D[i][i] = 0; for (int j = 0; j < i; j++) { double d = vp_double_grid_forked("d", 1.0, 0.5, VP_GRIDN); dm[i].push_back(d); D[i][j] = D[j][i] = d; } }
#endif
  for (int i = 0; i < N; i++) for (int j = 0; j < N; j++) for (int k = 0; k < N; k++) if (i != j && j != k && i != k) vp_assume(D[i][k] <= D[i][j] + D[j][k]);
#ifdef VP_VALIDITY_ONLY
  static const double epss[5] = {0.25, 0.5, 0.75, 1.0, 2.0}; double eps = epss[vp_fork_int(vp_int("eps", 0, 4))];
  double mini = vp_fork_int(vp_int("mini", 0, 1)) ? 1.5 : -std::numeric_limits<double>::infinity(), maxi = vp_fork_int(vp_int("maxi", 0, 1)) ? 2.0 : std::numeric_limits<double>::infinity();
  Gudhi::rips_complex::Sparse_rips_complex<double> src(dm, eps, mini, maxi);
#else
#ifdef VP_LINE
  static const double epss[5] = {0.25, 0.5, 0.75, 0.375, 0.125}; double eps = epss[vp_fork_int(vp_int("eps", 0, 4))];
#else
  static const double epss[3] = {0.25, 0.5, 0.75}; double eps = epss[vp_fork_int(vp_int("eps", 0, 2))];
#endif
  Gudhi::rips_complex::Sparse_rips_complex<double> src(dm, eps);
#endif
  ST st; src.create_complex(st, N - 1);
  bool sin[NS], rin[NS]; double sval[NS], rval[NS]; for (int m = 0; m < NS; m++) { sin[m] = false; rin[m] = true; sval[m] = rval[m] = 0; }
  for (int m = 1; m < NS; m++) for (int i = 0; i < N; i++) for (int j = i + 1; j < N; j++) if ((m >> i & 1) && (m >> j & 1) && D[i][j] > rval[m]) rval[m] = D[i][j];
  int cnt = 0;
  for (auto sh : st.complex_simplex_range()) { cnt++; int m = 0; for (auto v : st.simplex_vertex_range(sh)) { vp_assert(v >= 0 && v < N, "vertices are input points"); if (v >= 0 && v < N) m |= 1 << v; } vp_assert(!sin[m], "a simplex is stored once"); sin[m] = true; sval[m] = st.filtration(sh);
#ifndef VP_VALIDITY_ONLY
    vp_assert(sval[m] >= rval[m] * (1 - TOL), "a simplex never appears earlier than in the Rips filtration");
#endif
  }
  for (int m = 1; m < NS; m++) if (sin[m]) for (int i = 0; i < N; i++) if ((m >> i & 1) && (m & ~(1 << i))) { int f = m & ~(1 << i); vp_assert(sin[f], "closed under faces"); if (sin[f]) vp_assert(sval[f] <= sval[m], "values are monotone (a face is not later than a coface)"); }
#ifndef VP_VALIDITY_ONLY
  for (int i = 0; i < N; i++) vp_assert(sin[1 << i] && sval[1 << i] == 0, "every point is a vertex at value 0");
  // (c) approximation guarantee in every dimension
  { std::vector<Pt> S[N], R[N]; persistence(sin, sval, S); persistence(rin, rval, R); double c = 1.0 / (1.0 - eps);
    for (int d = 0; d < N - 1; d++) { std::vector<bool> used(R[d].size(), false); vp_assert(match(S[d], R[d], c, 0, used), "diagrams are at multiplicative (log-) bottleneck distance at most 1/(1-epsilon)"); } }
#endif
  vp_observe((uint64_t)cnt);
  vp_reach("end");
}
