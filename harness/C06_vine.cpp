// C06: vineyard swaps and removals of maximal cells leave the matrix as if freshly rebuilt on the resulting filtration;
// the value returned by a transposition is truthful.
// Symbolic: the base filtration and a walk of VP_K steps (swap position i / remove a maximal cell / remove_last / insert a cell).
#define VP_NEED_IDENT
#include "pm_common.h"
#ifndef VP_K
#define VP_K 2
#endif
static int nextId;
// known finding: RU matrix with removable columns: after remove_maximal_cell of a cell that is not the last one, the lazy row-swap tables are
// inconsistent and a later vine_swap throws std::out_of_range. Main units exclude swaps after such a removal; the *_kf unit explores exactly them.
static bool inner_removed = false;
static Mat* fresh(int n) {   // a new matrix of the same options built on the current filtration
#if VP_Z2
  Mat* f = new Mat(M);
#else
  Mat* f = new Mat(M, VP_P);
#endif
  for (int j = 0; j < n; j++) f->insert_boundary(boundary_of(j), pc(cell[j]) - 1);
  return f;
}
#if VP_BARCODE
static void same_barcode(Mat& a, Mat& b, int n) {
  int pa[M], pb[M]; for (int i = 0; i < M; i++) pa[i] = pb[i] = -2;
  for (auto& bar : a.get_current_barcode()) if ((int)bar.birth < n) pa[bar.birth] = bar.death == Mat::template get_null_value<typename Mat::Pos_index>() ? -1 : (int)bar.death;
  for (auto& bar : b.get_current_barcode()) if ((int)bar.birth < n) pb[bar.birth] = bar.death == Mat::template get_null_value<typename Mat::Pos_index>() ? -1 : (int)bar.death;
  for (int i = 0; i < n; i++) vp_assert(pa[i] == pb[i], "barcode equals the barcode of a matrix freshly built on the resulting filtration");
}
#endif
static void pairs_now(int n, int* pairOf) { int D[M][M], R[M][M], U[M][M], low[M]; dense_boundary(D, n); reduce(D, n, low, pairOf, R, U); }
extern "C" void harness() {
  choose_filtration(); for (int i = 0; i < M; i++) idAtPos[i] = i;
#if VP_Z2 && defined(VP_NORESERVE)
  Mat mat;   // no capacity announced: every container grows with the insertions
#elif VP_Z2
  Mat mat(M);
#else
  Mat mat(M, VP_P);
#endif
#ifndef VP_LATE
#define VP_LATE 0      // number of cells of the chosen filtration that are not inserted up front but by later "insert" steps of the walk (insertions interleaved with swaps)
#endif
  for (int j = 0; j < M - VP_LATE; j++) insert_cell(mat, j);
  ncell = M - VP_LATE; nextId = M - VP_LATE; inner_removed = false;
#if VP_BARCODE
  check_barcode(mat, ncell, "pair matches the independent reduction", "number of bars");
#endif
  for (int step = 0; step < VP_K; step++) {
#if VP_FLAVOUR == 1 && VP_IDX != 2
    for (int q = 0; q < ncell; q++) idAtPos[q] = q; nextId = ncell;   // RU, position indexation: rows move with the columns (swaps, removals), identifier == current position
#endif
    int kind = vp_fork_int(vp_int("kind", 0, (VP_REMOVABLE || VP_LATE) ? 2 : 0));
#if !VP_REMOVABLE
    vp_assume(kind != 1);
#endif
    if (kind == 0) {           // transposition of positions i, i+1 (admissible: not face/coface)
      int i = vp_fork_int(vp_int("swap", 0, M - 2)); vp_assume(i + 1 < ncell);
      int a = cell[i], b = cell[i + 1]; vp_assume((a & b) != a);
#if VP_FLAVOUR == 1 && VP_REMOVABLE
#ifdef VP_KF_RU_RM
      vp_assume(inner_removed);
#else
      vp_assume(!inner_removed);
#endif
#endif
      int oldPair[M], newPair[M]; pairs_now(ncell, oldPair);
#if VP_IDX == 1 || (VP_FLAVOUR == 1 && VP_IDX == 0)
#ifdef VP_ZEQ1
      bool r = mat.vine_swap_with_z_eq_1_case(i);
#else
      bool r = mat.vine_swap(i);
#endif
#else
      auto ret = mat.vine_swap(idAtPos[i], idAtPos[i + 1]); (void)ret;
#endif
      cell[i] = b; cell[i + 1] = a; { int t = unit[i]; unit[i] = unit[i + 1]; unit[i + 1] = t; }
#if VP_FLAVOUR == 2 || VP_IDX == 2
      { int t = idAtPos[i]; idAtPos[i] = idAtPos[i + 1]; idAtPos[i + 1] = t; }   // chain matrices / identifier indexation: an identifier stays with its cell
#endif      /* boundary-type (RU) matrices swap the rows together with the columns: "updated IDIdx if swaps occurred", the identifier of a cell is its current position */
      pairs_now(ncell, newPair);
#if (VP_IDX == 1 || (VP_FLAVOUR == 1 && VP_IDX == 0)) && !defined(VP_ZEQ1)
      { // truthfulness: true = the two cells kept their bars (barcode in positions = old one with i and i+1 exchanged), false = the barcode in positions is unchanged
        auto tau = [&](int p) { return p == i ? i + 1 : p == i + 1 ? i : p; }; bool eqOld = true, eqTau = true;
        for (int p = 0; p < ncell; p++) { if (newPair[p] != oldPair[p]) eqOld = false; int e = oldPair[tau(p)]; e = e < 0 ? e : tau(e); if (newPair[p] != e) eqTau = false; }
        vp_assert(r ? eqTau : eqOld, "the value returned by vine_swap is truthful"); if (r) vp_reach("swap-true"); else vp_reach("swap-false"); }
#endif
      vp_reach("swap");
    }
#if VP_REMOVABLE || VP_LATE
    else if (kind == 1) {      // remove the maximal cell at position j
#if VP_REMOVABLE
      int j = vp_fork_int(vp_int("rmpos", 0, M - 1)); vp_assume(j < ncell && ncell > 1);
#if VP_FLAVOUR == 1 && VP_REMOVABLE && VP_MAPC
#ifdef VP_KF_RU_RM
      vp_assume(step == 0 || inner_removed);
#else
      vp_assume(!inner_removed);   // known finding: any later operation through the lazy row maps (swap, insertion, another removal) may throw
#endif
#endif
#if !VP_MAPC
      vp_assume(j == ncell - 1);   // vector column container: only the last cell can be removed
#endif
      for (int q = j + 1; q < ncell; q++) vp_assume((cell[q] & cell[j]) != cell[j]);   // maximal: no later cell contains it
#if !VP_MAPC
      mat.remove_last();
#elif VP_IDX == 1 || (VP_FLAVOUR == 1 && VP_IDX == 0)
      mat.remove_maximal_cell(j);
#else
      mat.remove_maximal_cell(idAtPos[j]);
#endif
      if (j + 1 < ncell) inner_removed = true;
      for (int q = j; q + 1 < ncell; q++) { cell[q] = cell[q + 1]; unit[q] = unit[q + 1]; idAtPos[q] = idAtPos[q + 1]; } ncell--;
      vp_reach("remove_maximal_cell");
#endif
    } else {                   // insert a new admissible cell at the end
      vp_assume(ncell < M);
#if VP_FLAVOUR == 1 && VP_REMOVABLE
#ifdef VP_KF_RU_RM
      vp_assume(inner_removed);
#else
      vp_assume(!inner_removed);
#endif
#endif
      bool used[NSUB]; for (int s = 0; s < NSUB; s++) used[s] = false; for (int q = 0; q < ncell; q++) used[cell[q]] = true;
      int m = vp_int("newcell", 1, NSUB - 1); vp_assume(!used[m]); for (int s = 1; s < NSUB; s++) if ((s & m) == s && s != m) vp_assume(used[s]);
      cell[ncell] = m; unit[ncell] = 1; idAtPos[ncell] = nextId;
      { // boundary rows are identifiers
        int D[M][M]; dense_boundary(D, ncell + 1); Bd b; int order[M], no = 0; for (int r = 0; r < ncell; r++) if (D[r][ncell]) order[no++] = r;
        for (int x = 0; x < no; x++) for (int y = x + 1; y < no; y++) if (idAtPos[order[y]] < idAtPos[order[x]]) { int t = order[x]; order[x] = order[y]; order[y] = t; }
        for (int x = 0; x < no; x++) {
#if VP_Z2
          b.push_back((unsigned)idAtPos[order[x]]);
#else
          b.push_back({(unsigned)idAtPos[order[x]], (unsigned)D[order[x]][ncell]});
#endif
        }
        mat.insert_boundary((unsigned)nextId, b, pc(m) - 1); }
      nextId++; ncell++; vp_reach("insert");
    }
#endif
    // ---- equivalent to a rebuild
#if VP_BARCODE
    check_barcode(mat, ncell, "pair matches an independent reduction of the resulting filtration", "number of bars after the step");
    { Mat* f = fresh(ncell); same_barcode(mat, *f, ncell); delete f; }
#endif
#ifndef VP_NOIDENT
    { bool idsContiguous = true; for (int q = 0; q < ncell; q++) if (idAtPos[q] >= M + VP_K) idsContiguous = false; if (idsContiguous) check_identities(mat, ncell); }
#endif
  }
  vp_reach("end");
}
