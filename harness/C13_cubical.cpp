// C13: cubical complexes are valid filtered cell complexes with correct incidences.
// Shape = configuration (VP_D directions, sizes VP_S0..2 in top cells, periodic flags VP_P0..2, VP_VERT = built from vertex values).
// Symbolic: the cell index, a second cell, and every input value. Oracle: independent mixed-radix geometry.
#include "vp.h"
#include <limits>
#include <gudhi/Bitmap_cubical_complex.h>
#include <gudhi/Bitmap_cubical_complex_base.h>
#include <gudhi/Bitmap_cubical_complex_periodic_boundary_conditions_base.h>
#include <vector>
#ifndef VP_D
#define VP_D 2
#endif
#ifndef VP_S0
#define VP_S0 2
#endif
#ifndef VP_S1
#define VP_S1 2
#endif
#ifndef VP_S2
#define VP_S2 1
#endif
#ifndef VP_P0
#define VP_P0 0
#endif
#ifndef VP_P1
#define VP_P1 0
#endif
#ifndef VP_P2
#define VP_P2 0
#endif
#ifndef VP_VMAX
#define VP_VMAX 2
#endif
#ifndef VP_T
#define VP_T double
#endif
typedef VP_T T;
#if VP_P0 || VP_P1 || VP_P2
#define VP_PERIODIC 1
typedef Gudhi::cubical_complex::Bitmap_cubical_complex_periodic_boundary_conditions_base<T> Base;
#else
typedef Gudhi::cubical_complex::Bitmap_cubical_complex_base<T> Base;
#endif
typedef Gudhi::cubical_complex::Bitmap_cubical_complex<Base> BC;
static const int S[3] = {VP_S0, VP_S1, VP_S2}; static const bool PER[3] = {VP_P0 != 0, VP_P1 != 0, VP_P2 != 0};
static int ext(int i) { return PER[i] ? 2 * S[i] : 2 * S[i] + 1; }   // positions per direction
static int ncells() { int n = 1; for (int i = 0; i < VP_D; i++) n *= ext(i); return n; }
static void counter_of(int c, int* k) { for (int i = 0; i < VP_D; i++) { k[i] = c % ext(i); c /= ext(i); } }
static int index_of(const int* k) { int c = 0, m = 1; for (int i = 0; i < VP_D; i++) { c += k[i] * m; m *= ext(i); } return c; }
static int dim_cell(const int* k) { int d = 0; for (int i = 0; i < VP_D; i++) d += k[i] & 1; return d; }
enum { MAXC = 400 };
extern "C" void harness() {
  // ---- input values
  int nin = 1; for (int i = 0; i < VP_D; i++) nin *= (VP_VERT ? S[i] + (PER[i] ? 0 : 1) : S[i]);
  std::vector<T> in;
#ifdef VP_SYMVALS
#ifdef VP_INFTOP   /* the largest grid value stands for +infinity (cells that never appear): ties between infinite values */
  for (int i = 0; i < nin; i++) { int vi = vp_int("v", 0, VP_VMAX); in.push_back(vi == VP_VMAX ? std::numeric_limits<T>::infinity() : (T)vi); }
#else
  for (int i = 0; i < nin; i++) in.push_back((T)vp_int("v", 0, VP_VMAX));
#endif
#else
  for (int i = 0; i < nin; i++) in.push_back((T)((i * 7 + 3) % 5));   // concrete values with ties: the geometry clauses do not depend on them
#endif
  std::vector<unsigned> sizes; std::vector<bool> per; for (int i = 0; i < VP_D; i++) { sizes.push_back(VP_VERT ? S[i] + (PER[i] ? 0 : 1) : S[i]); per.push_back(PER[i]); }
#ifdef VP_PERIODIC
  BC bc(sizes, in, per, !VP_VERT);
#else
  BC bc(sizes, in, !VP_VERT);
#endif
  int N = ncells(); vp_assert((int)bc.num_simplices() == N && N <= MAXC, "number of cells");
  int c = vp_int("cell", 0, N - 1); int k[3]; counter_of(c, k); int d = dim_cell(k);
  vp_assert((int)bc.get_dimension_of_a_cell(c) == d, "dimension of a cell = number of odd coordinates");
#ifdef VP_GEOM
  // ---- geometric faces / cofaces of c (oracle)
  bool isface[MAXC], iscoface[MAXC]; for (int i = 0; i < N; i++) isface[i] = iscoface[i] = false; int nf = 0, ncf = 0;
  for (int i = 0; i < VP_D; i++) { int kk[3] = {k[0], k[1], k[2]};
    if (k[i] & 1) { kk[i] = k[i] - 1; isface[index_of(kk)] = true; kk[i] = (k[i] + 1) % ext(i); isface[index_of(kk)] = true; nf += 2; }
    else { if (k[i] > 0 || PER[i]) { kk[i] = (k[i] + ext(i) - 1) % ext(i); if (!iscoface[index_of(kk)]) ncf++; iscoface[index_of(kk)] = true; } if (k[i] + 1 < ext(i)) { kk[i] = k[i] + 1; if (!iscoface[index_of(kk)]) ncf++; iscoface[index_of(kk)] = true; } } }
  auto bd = bc.get_boundary_of_a_cell(c);
  vp_assert((int)bd.size() == 2 * d, "boundary has two faces per odd direction");
  int coef[MAXC]; for (int i = 0; i < N; i++) coef[i] = 0; int s1 = 1;
  for (auto f : bd) { vp_assert((int)f < N && isface[f], "enumerated boundary element is a geometric face"); if ((int)f >= N) continue;
    vp_assert(bc.get_dimension_of_a_cell(f) + 1 == (unsigned)d, "face has dimension - 1");
    vp_assert(!(bc.filtration(c) < bc.filtration(f)), "a face never has a larger value than the cell");
    int inc = bc.compute_incidence_between_cells(c, f); vp_assert(inc == 1 || inc == -1, "incidence number of a face is +-1");
    auto bd2 = bc.get_boundary_of_a_cell(f); int s2 = 1; for (auto g : bd2) { if ((int)g < N) coef[g] += s1 * s2; s2 = -s2; } s1 = -s1;
    auto cb = bc.get_coboundary_of_a_cell(f); bool found = false; for (auto q : cb) if ((int)q == c) found = true; vp_assert(found, "the cell is in the coboundary of each of its faces"); }
  for (int i = 0; i < N; i++) vp_assert(coef[i] == 0, "boundary of boundary is zero with signs alternating along the enumeration");
  auto cb = bc.get_coboundary_of_a_cell(c); vp_assert((int)cb.size() == ncf, "coboundary size matches the grid geometry");
  for (auto q : cb) { vp_assert((int)q < N && iscoface[q], "enumerated coboundary element is a geometric coface"); if ((int)q >= N) continue;
    auto b2 = bc.get_boundary_of_a_cell(q); bool found = false; for (auto g : b2) if ((int)g == c) found = true; vp_assert(found, "the cell is a face of each of its cofaces"); }
#else
  auto bd = bc.get_boundary_of_a_cell(c);
#endif
  // ---- value of the cell
#if VP_VERT
  { T mx = 0; bool first = true;   // maximum over the vertices of the cell
    for (int corner = 0; corner < (1 << VP_D); corner++) { int kk[3] = {k[0], k[1], k[2]}; bool ok = true; int vi = 0, vm = 1;
      for (int i = 0; i < VP_D; i++) { if (k[i] & 1) kk[i] = (corner >> i & 1) ? (k[i] + 1) % ext(i) : k[i] - 1; else if (corner >> i & 1) ok = false; }
      if (!ok) continue; for (int i = 0; i < VP_D; i++) { vi += (kk[i] / 2) * vm; vm *= S[i] + (PER[i] ? 0 : 1); }
      T v = in[vi]; if (first || mx < v) mx = v; first = false; }
    vp_assert(bc.filtration(c) == mx, "value = maximum over the vertices of the cell"); }
#else
  { T mn = 0; bool first = true;   // minimum over the top cells containing the cell
    for (int corner = 0; corner < (1 << VP_D); corner++) { int kk[3] = {k[0], k[1], k[2]}; bool ok = true; int ti = 0, tm = 1;
      for (int i = 0; i < VP_D; i++) { if (!(k[i] & 1)) { if (corner >> i & 1) { if (k[i] + 1 < ext(i)) kk[i] = k[i] + 1; else ok = false; } else { if (k[i] > 0) kk[i] = k[i] - 1; else if (PER[i]) kk[i] = ext(i) - 1; else ok = false; } } else if (corner >> i & 1) ok = false; }
      if (!ok) continue; for (int i = 0; i < VP_D; i++) { ti += (kk[i] / 2) * tm; tm *= S[i]; }
      T v = in[ti]; if (first || v < mn) mn = v; first = false; }
    vp_assert(!first && bc.filtration(c) == mn, "value = minimum over the top cells containing the cell"); }
#endif
#ifdef VP_ORDER
  // ---- filtration order: total, non-decreasing, faces first
  { auto const& rg = bc.filtration_simplex_range(); vp_assert((int)rg.size() == N, "filtration range lists every cell"); int pos[MAXC]; for (int i = 0; i < N; i++) pos[i] = -1; int p = 0; bool mono = true; 
    for (auto sh : rg) { if ((int)sh < N) { vp_assert(pos[sh] == -1, "filtration range lists a cell twice"); pos[sh] = p; } p++; }
    for (size_t i = 1; i < rg.size(); i++) if (bc.filtration(rg[i]) < bc.filtration(rg[i - 1])) mono = false; vp_assert(mono, "filtration range is non-decreasing");
    for (auto f : bd) if ((int)f < N) vp_assert(pos[f] >= 0 && pos[f] < pos[c], "faces come first in the filtration order"); }
#endif
  vp_observe((uint64_t)c * 8 + d);
  vp_reach("end");
}
