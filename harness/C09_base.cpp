// C09: a general-purpose (base) matrix is observationally a dense matrix over its field, whatever the column container.
// Symbolic: initial dense content (VP_C0 columns x VP_R rows), then VP_K operations (kind, indices, coefficient, inserted content).
// Oracle: int D[row][col] with the obvious semantics; full read-back (contents, zero tests, rows) after every step.
#include "vp.h"
#include <gudhi/Matrix.h>
#include <gudhi/persistence_matrix_options.h>
#include <vector>
#include <utility>
#ifndef VP_COL
#define VP_COL INTRUSIVE_SET
#endif
#ifndef VP_Z2
#define VP_Z2 1
#endif
#ifndef VP_ROWS
#define VP_ROWS 0      // 0 no row access, 1 intrusive rows, 2 set rows
#endif
#ifndef VP_RMROWS
#define VP_RMROWS 0
#endif
#ifndef VP_MAPC
#define VP_MAPC 0
#endif
#ifndef VP_SWAPS
#define VP_SWAPS 0
#endif
#ifndef VP_COMPR
#define VP_COMPR 0
#endif
#ifndef VP_R
#define VP_R 3
#endif
#ifndef VP_C0
#define VP_C0 2
#endif
#ifndef VP_K
#define VP_K 2
#endif
#define VP_P 5
using namespace Gudhi::persistence_matrix;
struct Opt : Default_options<Column_types::VP_COL, VP_Z2 != 0> {
  static const bool has_row_access = VP_ROWS != 0; static const bool has_intrusive_rows = VP_ROWS == 1; static const bool has_removable_rows = VP_RMROWS != 0;
  static const bool has_map_column_container = VP_MAPC != 0; static const bool has_removable_columns = VP_MAPC != 0;
  static const bool has_column_and_row_swaps = VP_SWAPS != 0; static const bool has_column_compression = VP_COMPR != 0;
};
typedef Matrix<Opt> Mat;
enum { R = VP_R, CMAX = VP_C0 + VP_K, MOD = VP_Z2 ? 2 : VP_P };
static int D[R][CMAX]; static int ncols;
// column compression: identical columns share one representative, so an update of a column applies to its whole class; classes only grow
static bool same[CMAX][CMAX];
static bool zero_col(int c) { for (int r = 0; r < R; r++) if (D[r][c]) return false; return true; }
// known finding (see known_findings.txt): with column compression an all-zero column has no representative and the column operations
// dereference it; the main units exclude that region, the *_kf unit explores exactly it.
#ifdef VP_KF_EMPTY
#define KF_REGION(t) vp_assume(zero_col(t))
#else
#define KF_REGION(t) vp_assume(!(VP_COMPR && zero_col(t)))
#endif
// known finding: after swap_columns with row access the swapped columns keep each other's column index for the entries they create later
static bool colswap_done = false;
#ifdef VP_KF_COLSWAP
#define KF_COLSWAP() vp_assume(colswap_done)
#else
#define KF_COLSWAP() vp_assume(!(VP_ROWS && colswap_done))
#endif
static void remerge() { for (int a = 0; a < ncols; a++) for (int b = 0; b < ncols; b++) if (!same[a][b]) { bool eq = true; for (int r = 0; r < R; r++) if (D[r][a] != D[r][b]) eq = false; if (eq && VP_COMPR) same[a][b] = true; } }
static void set_col(int t, const int* nv) { for (int c = 0; c < ncols; c++) if (c == t || (VP_COMPR && same[c][t])) for (int r = 0; r < R; r++) D[r][c] = nv[r]; remerge(); }
#if VP_Z2
typedef std::vector<unsigned> Col;
static Col mkcol(const int* v) { Col c; for (int r = 0; r < R; r++) if (v[r]) c.push_back(r); return c; }
#else
typedef std::vector<std::pair<unsigned, unsigned> > Col;
static Col mkcol(const int* v) { Col c; for (int r = 0; r < R; r++) if (v[r]) c.push_back({(unsigned)r, (unsigned)v[r]}); return c; }
#endif
static void observe(Mat& m) {
  vp_assert((int)m.get_number_of_columns() == ncols, "number of columns");
  for (int c = 0; c < ncols; c++) { bool zc = true;
    auto content = m.get_column(c).get_content(R);
    for (int r = 0; r < R; r++) { vp_assert((int)content[r] == D[r][c], "column content"); vp_assert(m.is_zero_entry(c, r) == (D[r][c] == 0), "is_zero_entry"); if (D[r][c]) zc = false; }
    vp_assert(m.is_zero_column(c) == zc, "is_zero_column"); }
#if VP_ROWS
  for (int r = 0; r < R; r++) {
    int seen[CMAX]; for (int c = 0; c < CMAX; c++) seen[c] = -1; bool exists = true;
#if VP_RMROWS
    { bool any = false; for (int c = 0; c < ncols; c++) if (D[r][c]) any = true; exists = any; }   // an emptied removable row may have been erased
#endif
    if (!exists) continue;
    for (const auto& e : m.get_row(r)) {
      int c = (int)e.get_column_index(); vp_assert(c >= 0 && c < ncols && seen[c] == -1, "row lists a column once");
#if VP_Z2
      if (c >= 0 && c < ncols) seen[c] = 1;
#else
      if (c >= 0 && c < ncols) seen[c] = (int)e.get_element();
#endif
    }
#if VP_COMPR
    for (int c = 0; c < ncols; c++) { int listed = 0, val = 0; for (int q = 0; q < ncols; q++) if (same[c][q] && seen[q] != -1) { listed++; val = seen[q]; }   // one shared representative per class of identical columns
      vp_assert(listed == (D[r][c] ? 1 : 0) && (listed == 0 || val == D[r][c]), "row content = non-zero entries of the row (one representative per class)"); }
#else
    for (int c = 0; c < ncols; c++) vp_assert((seen[c] == -1 ? 0 : seen[c]) == D[r][c], "row content = non-zero entries of the row");
#endif
  }
#endif
}
extern "C" void harness() {
#if VP_Z2
  Mat m(CMAX);
#else
  Mat m(CMAX, VP_P);
#endif
  colswap_done = false; ncols = 0; for (int r = 0; r < R; r++) for (int c = 0; c < CMAX; c++) D[r][c] = 0; for (int a = 0; a < CMAX; a++) for (int b = 0; b < CMAX; b++) same[a][b] = (a == b);
  for (int c = 0; c < VP_C0; c++) { int v[R]; for (int r = 0; r < R; r++) { v[r] = vp_fork_int(vp_int("e", 0, MOD - 1)); D[r][c] = v[r]; } m.insert_column(mkcol(v)); ncols++; remerge(); }
  observe(m);
  for (int step = 0; step < VP_K; step++) {
    int kind = vp_fork_int(vp_int("kind", 0, 8));
    auto pick_col = [&](const char* n) { int x = vp_int(n, 0, CMAX - 1); vp_assume(x < ncols); return vp_fork_int(x); };
    auto pick_coef = [&]() { return vp_fork_int(VP_Z2 ? vp_int("coef", 0, 1) : vp_int("coef", 0, VP_P - 1)); };
    if (kind == 0) { int s = pick_col("s"), t = pick_col("t"); vp_assume(s != t && !(VP_COMPR && same[s][t])); KF_COLSWAP(); KF_REGION(t); m.add_to(s, t); int nv[R]; for (int r = 0; r < R; r++) nv[r] = (D[r][t] + D[r][s]) % MOD; set_col(t, nv); vp_reach("add_to"); }
    else if (kind == 1) { int s = pick_col("s"), t = pick_col("t"); vp_assume(s != t && !(VP_COMPR && same[s][t])); int coef = pick_coef(); KF_COLSWAP(); KF_REGION(t); m.multiply_target_and_add_to(s, coef, t); int nv[R]; for (int r = 0; r < R; r++) nv[r] = (D[r][t] * coef + D[r][s]) % MOD; set_col(t, nv); vp_reach("multiply_target_and_add_to"); }
    else if (kind == 2) { int s = pick_col("s"), t = pick_col("t"); vp_assume(s != t && !(VP_COMPR && same[s][t])); int coef = pick_coef(); KF_COLSWAP(); KF_REGION(t); m.multiply_source_and_add_to(coef, s, t); int nv[R]; for (int r = 0; r < R; r++) nv[r] = (D[r][t] + coef * D[r][s]) % MOD; set_col(t, nv); vp_reach("multiply_source_and_add_to"); }
#if !VP_COMPR
    else if (kind == 3) { int t = pick_col("t"), r0 = vp_fork_int(vp_int("row", 0, R - 1));
#if defined(VP_COL_VECTOR) && VP_ROWS   /* known finding: a lazily erased entry of a Vector_column stays linked in its row */
#ifdef VP_KF_LAZYROW
      vp_assume(D[r0][t] != 0);
#else
      vp_assume(D[r0][t] == 0);
#endif
#endif
      m.zero_entry(t, r0); D[r0][t] = 0; vp_reach("zero_entry"); }
    else if (kind == 4) { int t = pick_col("t"); m.zero_column(t); for (int r = 0; r < R; r++) D[r][t] = 0; vp_reach("zero_column"); }
#endif
#if VP_SWAPS
    else if (kind == 5) { int s = pick_col("s"), t = pick_col("t"); vp_assume(s < t); m.swap_columns(s, t); colswap_done = true; for (int r = 0; r < R; r++) { int x = D[r][s]; D[r][s] = D[r][t]; D[r][t] = x; } vp_reach("swap_columns"); }
    else if (kind == 6) { int r0 = vp_fork_int(vp_int("row", 0, R - 1)), r1 = vp_fork_int(vp_int("row2", 0, R - 1)); vp_assume(r0 < r1); m.swap_rows(r0, r1); for (int c = 0; c < CMAX; c++) { int x = D[r0][c]; D[r0][c] = D[r1][c]; D[r1][c] = x; } vp_reach("swap_rows"); }
#endif
    else if (kind == 7) { vp_assume(ncols < CMAX); int v[R]; for (int r = 0; r < R; r++) { v[r] = vp_fork_int(vp_int("ne", 0, MOD - 1)); D[r][ncols] = v[r]; } m.insert_column(mkcol(v)); ncols++; remerge(); vp_reach("insert_column"); }
#if VP_MAPC
    else if (kind == 8) { vp_assume(ncols > 1); m.remove_last(); ncols--; for (int r = 0; r < R; r++) D[r][ncols] = 0; vp_reach("remove_last"); }
#endif
    else vp_assume(false);
    observe(m);
  }
  vp_reach("end");
}
