#!/bin/bash
# usage: seedtest.sh C07 [tier]   -- verify a seeded change produced in /tmp/seed/<ID> and run the property's check against it
ID=$1; TIER=${2:-quick}; SR=${SEEDROOT:-/tmp/seed}; D=$SR/$ID; OUT=$SR/$ID.report; : > $OUT
cd $D || exit 2
echo "== patch" >> $OUT; git -C $D diff --stat -- src >> $OUT 2>&1; wc -l seed.patch >> $OUT
echo "== demo WITH patch" >> $OUT; (bash demo_cmd.txt > $SR/$ID.demo_with.log 2>&1; echo "exit=$?" >> $OUT); tail -3 $SR/$ID.demo_with.log >> $OUT
echo "== demo WITHOUT patch" >> $OUT; git -C $D apply -R seed.patch && (bash demo_cmd.txt > $SR/$ID.demo_without.log 2>&1; echo "exit=$?" >> $OUT); tail -2 $SR/$ID.demo_without.log >> $OUT; git -C $D apply seed.patch
echo "== existing tests WITH patch (agent's build dir)" >> $OUT
if [ -d $D/_b ]; then (cd $D/_b && ctest -j8 --timeout 300 > $SR/$ID.ctest.log 2>&1; echo "passed=$(grep -c ' Passed ' $SR/$ID.ctest.log) failed=$(grep -cE '\*\*\*(Failed|Exception|Timeout)' $SR/$ID.ctest.log) notbuilt=$(grep -c 'Not Run' $SR/$ID.ctest.log)" >> $OUT; grep -E '\*\*\*(Failed|Exception|Timeout)' $SR/$ID.ctest.log | head -5 >> $OUT); fi
echo "== check on /repo with the patch ($TIER)" >> $OUT
cd /verif; git -C /repo apply $D/seed.patch || { echo "PATCH DOES NOT APPLY TO /repo" >> $OUT; exit 3; }
( time ./check $ID --tier $TIER ${UNIT:+--unit $UNIT} ) > $SR/$ID.check.log 2>&1; echo "check exit=$?" >> $OUT
git -C /repo checkout -- . ; git -C /repo status --short | head -3 >> $OUT
grep -E "^VIOLATION|^INCONCLUSIVE|^KNOWN|tier=" $SR/$ID.check.log | cut -c1-260 | head -12 >> $OUT
cat $OUT
